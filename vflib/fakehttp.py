"""I6: fake S3 and B2 services as httpx transports + an independent SigV4 verifier.

The transports see each request as httpx would put it on the wire (raw path, header list, body
chunks).  They implement documented service behaviour only.  Both take a fault plan.
"""
import base64
import hashlib
import hmac
import json
import re
import threading
from urllib.parse import unquote_to_bytes
from xml.sax.saxutils import escape as xml_escape

import httpx

UNRESERVED = b'ABCDEFGHIJKLMNOPQRSTUVWXYZabcdefghijklmnopqrstuvwxyz0123456789-_.~'


def uri_encode(data, keep_slash=False):
    out = []
    for b in data:
        if b in UNRESERVED or (keep_slash and b == 0x2F):
            out.append(chr(b))
        else:
            out.append('%%%02X' % b)
    return ''.join(out)


class SigError(Exception):
    pass


def sigv4_verify(method, raw_path, headers, body, secrets):
    """Recompute AWS Signature Version 4 from the wire bytes.  `headers`: list of (name, value) bytes pairs as
    sent; `secrets`: {key id: secret}.  Raises SigError with the reason, returns the parsed credential scope."""
    hdrs = {}
    for k, v in headers:
        hdrs.setdefault(k.decode('latin-1').lower(), []).append(v.decode('latin-1'))
    auth = (hdrs.get('authorization') or [''])[0]
    m = re.fullmatch(r'AWS4-HMAC-SHA256 Credential=([^,]+), ?SignedHeaders=([^,]+), ?Signature=([0-9a-f]{64})', auth)
    if not m:
        raise SigError(f'malformed Authorization header: {auth[:80]!r}')
    cred, signed, signature = m.groups()
    parts = cred.split('/')
    if len(parts) < 5 or parts[-1] != 'aws4_request':
        raise SigError('malformed credential scope')
    key_id, (date, region, service) = '/'.join(parts[:-4]), parts[-4:-1]
    if key_id not in secrets:
        raise SigError(f'unknown access key id {key_id!r}')
    signed_list = signed.split(';')
    if signed_list != sorted(signed_list):
        raise SigError('SignedHeaders are not sorted')
    for need in ('host', 'x-amz-date', 'x-amz-content-sha256'):
        if need not in signed_list:
            raise SigError(f'{need} is not a signed header')
    amzdate = (hdrs.get('x-amz-date') or [''])[0]
    if not re.fullmatch(r'\d{8}T\d{6}Z', amzdate) or amzdate[:8] != date:
        raise SigError(f'x-amz-date {amzdate!r} does not match the credential scope date {date!r}')
    path, _, query = raw_path.partition(b'?')
    canonical_uri = uri_encode(unquote_to_bytes(path), keep_slash=True)
    pairs = []
    if query:
        for item in query.split(b'&'):
            k, _, v = item.partition(b'=')
            # a service decodes the query string the www-form way ('+' is a space) and re-encodes canonically
            pairs.append((uri_encode(unquote_to_bytes(k.replace(b'+', b' '))), uri_encode(unquote_to_bytes(v.replace(b'+', b' ')))))
    canonical_query = '&'.join(f'{k}={v}' for k, v in sorted(pairs))
    canonical_headers = ''
    for name in signed_list:
        if name not in hdrs:
            raise SigError(f'signed header {name} was not sent')
        canonical_headers += name + ':' + ','.join(' '.join(v.split()) for v in hdrs[name]) + '\n'
    payload_hash = hdrs['x-amz-content-sha256'][0]
    creq = '\n'.join([method, canonical_uri, canonical_query, canonical_headers, signed, payload_hash])
    scope = '/'.join([date, region, service, 'aws4_request'])
    sts = '\n'.join(['AWS4-HMAC-SHA256', amzdate, scope, hashlib.sha256(creq.encode()).hexdigest()])
    k = ('AWS4' + secrets[key_id]).encode()
    for piece in (date, region, service, 'aws4_request'):
        k = hmac.new(k, piece.encode(), hashlib.sha256).digest()
    want = hmac.new(k, sts.encode(), hashlib.sha256).hexdigest()
    if want != signature:
        raise SigError('signature mismatch; canonical request the service derives from the wire:\n' + creq)
    if payload_hash == 'UNSIGNED-PAYLOAD':
        # accepted by S3, but then nothing ties the signature to the bytes sent: C16 asks for a payload hash that matches
        raise SigError(f'the payload ({len(body)} bytes) is not covered by the signature: x-amz-content-sha256 is UNSIGNED-PAYLOAD')
    if payload_hash != hashlib.sha256(body).hexdigest():
        raise SigError(f'x-amz-content-sha256 does not match the body sent ({len(body)} bytes)')
    cl = hdrs.get('content-length')
    if cl is not None and int(cl[0]) != len(body):
        raise SigError(f'Content-Length {cl[0]} but {len(body)} body bytes sent')
    return {'key_id': key_id, 'date': date, 'region': region, 'service': service, 'signed': signed_list,
            'host': hdrs.get('host', [''])[0]}


class _DropStream(httpx.AsyncByteStream):
    """Response body that loses the connection after k chunks."""

    def __init__(self, data, chunk, drop_after):
        self.data, self.chunk, self.drop_after = data, chunk, drop_after

    async def __aiter__(self):
        n = 0
        for i in range(0, len(self.data), self.chunk):
            if self.drop_after is not None and n >= self.drop_after:
                raise httpx.ReadError('vf: connection lost while reading the response')
            yield self.data[i:i + self.chunk]
            n += 1
        if self.drop_after is not None:
            raise httpx.ReadError('vf: connection lost before the end of the response')


class FakeService(httpx.AsyncBaseTransport):
    """Common part: request log, fault plan.  A fault entry: {'op': 's3:PUT'|..., 'nth': int, 'count': int|None,
    'kind': 'connect' | 'status' | 'drop-request' | 'drop-response', 'status': int, 'after': chunks, 'headers': {...},
    'body': bytes}.  'drop-request' consumes `after` body chunks and loses the connection; 'drop-response' processes the
    request (its effect takes place!) and loses the connection after `after` response chunks."""

    def __init__(self, faults=None, response_chunk=1000):
        self.lock = threading.Lock()
        self.requests = []          # dicts: op, method, raw_path, headers, body_len, status
        self.faults = list(faults or [])
        self.response_chunk = response_chunk
        self.attempts = {}

    def _fault(self, op):
        with self.lock:
            self.attempts[op] = self.attempts.get(op, 0) + 1
            for f in self.faults:
                if f.get('op') not in (None, op):
                    continue
                seen = f.get('_seen', 0)
                f['_seen'] = seen + 1
                if seen < f.get('nth', 0):
                    continue
                if f.get('count') is not None and seen >= f.get('nth', 0) + f['count']:
                    continue
                f['_hit'] = f.get('_hit', 0) + 1
                return f
        return None

    async def _read_body(self, request, limit_chunks=None):
        chunks = []
        async for c in request.stream:
            chunks.append(bytes(c))
            if limit_chunks is not None and len(chunks) >= limit_chunks:
                break
        return chunks

    def _respond(self, request, status, body=b'', headers=None, drop_after=None, head=False):
        h = {'content-length': str(len(body))}
        h.update(headers or {})
        if head:
            return httpx.Response(status, headers=h, request=request)
        return httpx.Response(status, headers=h, stream=_DropStream(body, self.response_chunk, drop_after), request=request)

    async def handle_async_request(self, request):
        op = self.classify(request)
        fault = self._fault(op)
        rec = {'op': op, 'method': request.method, 'raw_path': request.url.raw_path, 'headers': list(request.headers.raw),
               'host': request.url.host, 'fault': fault and fault['kind']}
        with self.lock:
            self.requests.append(rec)
        if fault is not None:
            kind = fault['kind']
            if kind == 'connect':
                raise httpx.ConnectError('vf: connection refused')
            if kind == 'drop-request':
                got = await self._read_body(request, fault.get('after', 0) or None) if fault.get('after', 0) else []
                rec['body_chunks_before_drop'] = len(got)
                raise httpx.WriteError('vf: connection lost while sending the request body')
            if kind == 'status':
                chunks = await self._read_body(request)
                rec['body_len'] = sum(map(len, chunks))
                rec['status'] = fault['status']
                return self._respond(request, fault['status'], fault.get('body', b'{"code": "vf_fault", "status": %d}' % fault['status']),
                                     fault.get('headers'), head=request.method == 'HEAD')
        chunks = await self._read_body(request)
        body = b''.join(chunks)
        rec['body_len'], rec['body_chunks'] = len(body), len(chunks)
        rec['body_sha256'] = hashlib.sha256(body).hexdigest()
        resp = await self.serve(op, request, body, rec)
        rec['status'] = resp.status_code
        if fault is not None and fault['kind'] == 'drop-response':
            if request.method == 'HEAD':
                raise httpx.ReadError('vf: connection lost while reading the response')
            data = b''.join([c async for c in resp.stream])
            return self._respond(request, resp.status_code, data, dict(resp.headers), drop_after=fault.get('after', 0))
        return resp


class FakeS3(FakeService):
    def __init__(self, bucket, secrets, page_size=3, verify=True, **kw):
        super().__init__(**kw)
        self.bucket, self.secrets, self.page_size, self.verify = bucket, secrets, page_size, verify
        self.objects = {}
        self.empty_page_every = 0       # 0 = never
        self.empty_pages = 0
        self.sig_failures = []
        self.verified = 0
        self.pages = 0

    def classify(self, request):
        path = request.url.raw_path.partition(b'?')[0]
        is_bucket = path.rstrip(b'/') == b'/' + self.bucket.encode()
        if request.method == 'GET' and is_bucket:
            return 's3:LIST'
        return 's3:' + request.method

    async def serve(self, op, request, body, rec):
        if self.verify:
            try:
                info = sigv4_verify(request.method, request.url.raw_path, request.headers.raw, body, self.secrets)
                rec['sig'] = info
                self.verified += 1
            except SigError as e:
                rec['sig_error'] = str(e)
                self.sig_failures.append(rec)
                return self._respond(request, 403, b'<Error><Code>SignatureDoesNotMatch</Code></Error>', head=request.method == 'HEAD')
        raw = request.url.raw_path
        path, _, query = raw.partition(b'?')
        decoded = unquote_to_bytes(path).decode('utf-8', 'surrogateescape')
        prefix = '/' + self.bucket + '/'
        if op == 's3:LIST':
            q = {}
            for item in query.split(b'&') if query else []:
                k, _, v = item.partition(b'=')
                q[unquote_to_bytes(k.replace(b'+', b' ')).decode()] = unquote_to_bytes(v.replace(b'+', b' ')).decode('utf-8', 'surrogateescape')
            if q.get('list-type') != '2':
                return self._respond(request, 400, b'<Error><Code>InvalidArgument</Code></Error>')
            pfx = q.get('prefix', '')
            names = sorted(n for n in self.objects if n.startswith(pfx))
            token = q.get('continuation-token')
            if token is not None:
                try:
                    start = base64.standard_b64decode(token.encode()).decode('utf-8', 'surrogateescape')
                    # 'after:<name>' or 'after<k>:<name>' (the token of an empty page: another opaque value, same position)
                    head, sep, tail_ = start.partition(':')
                    if not sep or not head.startswith('after') or (head[5:] and not head[5:].isdigit()):
                        raise ValueError
                    start = 'after:' + tail_
                except Exception:
                    return self._respond(request, 400, b'<Error><Code>InvalidArgument</Code><Message>bad token</Message></Error>')
                names = [n for n in names if n > start[6:]]
            page, rest = names[:self.page_size], names[self.page_size:]
            self.pages += 1
            # S3 may answer with an EMPTY page that is nevertheless truncated (a run of delete markers in a versioned bucket):
            # every `empty_page_every`-th page of a listing that has more to come is such a page, its token resumes where it is
            if self.empty_page_every and rest and page and self.pages % self.empty_page_every == 0:
                self.empty_pages += 1
                after = token and start[6:] or ''
                tok = base64.standard_b64encode((f'after{self.empty_pages}:' + after).encode('utf-8', 'surrogateescape')).decode()
                if not hasattr(self, '_skip_once') or self._skip_once != (pfx, after):
                    self._skip_once = (pfx, after)
                    xml = ['<?xml version="1.0" encoding="UTF-8"?><ListBucketResult xmlns="http://s3.amazonaws.com/doc/2006-03-01/">',
                           f'<Name>{xml_escape(self.bucket)}</Name><Prefix>{xml_escape(pfx)}</Prefix><KeyCount>0</KeyCount>',
                           '<IsTruncated>true</IsTruncated>', f'<NextContinuationToken>{xml_escape(tok)}</NextContinuationToken>',
                           '</ListBucketResult>']
                    return self._respond(request, 200, ''.join(xml).encode('utf-8', 'surrogateescape'))
            xml = ['<?xml version="1.0" encoding="UTF-8"?><ListBucketResult xmlns="http://s3.amazonaws.com/doc/2006-03-01/">',
                   f'<Name>{xml_escape(self.bucket)}</Name><Prefix>{xml_escape(pfx)}</Prefix><KeyCount>{len(page)}</KeyCount>',
                   f'<IsTruncated>{"true" if rest else "false"}</IsTruncated>']
            if rest:
                # tokens are opaque to the client and may contain characters that need encoding in a query
                tok = base64.standard_b64encode(('after:' + page[-1]).encode('utf-8', 'surrogateescape')).decode()
                xml.append(f'<NextContinuationToken>{xml_escape(tok)}</NextContinuationToken>')
            for n in page:
                xml.append(f'<Contents><Key>{xml_escape(n)}</Key><Size>{len(self.objects[n])}</Size></Contents>')
            xml.append('</ListBucketResult>')
            return self._respond(request, 200, ''.join(xml).encode('utf-8', 'surrogateescape'))
        if not decoded.startswith(prefix):
            return self._respond(request, 404, b'<Error><Code>NoSuchBucket</Code></Error>', head=request.method == 'HEAD')
        key = decoded[len(prefix):]
        rec['key'] = key
        if op == 's3:PUT':
            cl = request.headers.get('content-length')
            if cl is None or int(cl) != len(body):
                return self._respond(request, 400, b'<Error><Code>IncompleteBody</Code></Error>')
            self.objects[key] = body
            return self._respond(request, 200)
        if op in ('s3:GET', 's3:HEAD'):
            if key not in self.objects:
                return self._respond(request, 404, b'<Error><Code>NoSuchKey</Code></Error>', head=op == 's3:HEAD')
            return self._respond(request, 200, self.objects[key], head=op == 's3:HEAD')
        if op == 's3:DELETE':
            self.objects.pop(key, None)
            return self._respond(request, 204)
        return self._respond(request, 405)


class FakeB2(FakeService):
    API, DL, UP = 'api001.vf-b2.test', 'f001.vf-b2.test', 'pod-000.vf-b2.test'

    def __init__(self, bucket_name, key_id, app_key, page_size=3, restricted=False, **kw):
        super().__init__(**kw)
        self.bucket_name, self.bucket_id = bucket_name, 'b' + hashlib.sha1(bucket_name.encode()).hexdigest()[:12]
        self.key_id, self.app_key, self.page_size, self.restricted = key_id, app_key, page_size, restricted
        self.versions = {}          # name -> list of ('upload', bytes) | ('hide', None), newest last
        self.tokens, self.upload_tokens = set(), {}
        self.counter = 0
        self.expire_all_on = None   # callable(op)->bool: invalidate every account token before serving (401 expired)
        self.protocol_errors = []
        self.pages = 0
        self.authorize_delay = 0.0  # seconds b2_authorize_account takes (other requests go on meanwhile)

    # -- the object-store view --------------------------------------------------------------------------------
    def live(self):
        return {n: v[-1][1] for n, v in self.versions.items() if v and v[-1][0] == 'upload'}

    def classify(self, request):
        host, path = request.url.host, request.url.raw_path.partition(b'?')[0].decode('latin-1')
        if path.endswith('/b2_authorize_account'):
            return 'b2:authorize'
        for name in ('b2_list_buckets', 'b2_get_upload_url', 'b2_list_file_names', 'b2_hide_file'):
            if path.endswith('/' + name):
                return 'b2:' + name[3:]
        if host == self.UP:
            return 'b2:upload'
        if host == self.DL:
            return 'b2:head' if request.method == 'HEAD' else 'b2:download'
        return 'b2:unknown'

    def _json(self, request, status, obj, head=False):
        return self._respond(request, status, json.dumps(obj).encode(), {'content-type': 'application/json'}, head=head)

    def _err(self, request, status, code, head=False):
        return self._json(request, status, {'status': status, 'code': code, 'message': code}, head=head)

    def _new_token(self):
        self.counter += 1
        return f'tok-{self.counter}-{hashlib.sha1(str(self.counter).encode()).hexdigest()[:8]}'

    def _check_token(self, request):
        return request.headers.get('authorization') in self.tokens

    async def serve(self, op, request, body, rec):
        head = request.method == 'HEAD'
        if op == 'b2:authorize':
            want = 'Basic ' + base64.b64encode(f'{self.key_id}:{self.app_key}'.encode()).decode()
            if request.headers.get('authorization') != want:
                return self._err(request, 401, 'bad_auth_token')
            if self.authorize_delay:
                import asyncio
                await asyncio.sleep(self.authorize_delay)
            tok = self._new_token()
            self.tokens.add(tok)
            allowed = {'bucketId': self.bucket_id, 'bucketName': self.bucket_name} if self.restricted else \
                {'bucketId': None, 'bucketName': None}
            return self._json(request, 200, {'accountId': 'acc1', 'authorizationToken': tok, 'apiUrl': f'https://{self.API}',
                                             'downloadUrl': f'https://{self.DL}', 'allowed': allowed})
        if self.expire_all_on is not None and self.expire_all_on(op):
            self.tokens.clear()
            self.upload_tokens.clear()
        if op == 'b2:upload':
            url = str(request.url)
            if self.upload_tokens.get(url) != request.headers.get('authorization'):
                return self._err(request, 401, 'expired_auth_token')
            name_hdr = request.headers.get('x-bz-file-name')
            cl = request.headers.get('content-length')
            if name_hdr is None or cl is None:
                return self._err(request, 400, 'bad_request')
            if int(cl) != len(body):
                self.protocol_errors.append(f'upload: Content-Length {cl} but {len(body)} bytes arrived')
                return self._err(request, 400, 'bad_request')
            name = unquote_to_bytes(name_hdr.encode('latin-1')).decode('utf-8', 'surrogateescape')
            rec['key'] = name
            self.versions.setdefault(name, []).append(('upload', body))
            return self._json(request, 200, {'fileName': name, 'contentLength': len(body)})
        if op in ('b2:download', 'b2:head'):
            if not self._check_token(request):
                return self._err(request, 401, 'expired_auth_token', head=head)
            path = request.url.raw_path.partition(b'?')[0]
            decoded = unquote_to_bytes(path).decode('utf-8', 'surrogateescape')
            pfx = f'/file/{self.bucket_name}/'
            if not decoded.startswith(pfx):
                return self._err(request, 404, 'not_found', head=head)
            name = decoded[len(pfx):]
            rec['key'] = name
            live = self.live()
            if name not in live:
                return self._err(request, 404, 'not_found', head=head)
            return self._respond(request, 200, live[name], head=head)
        # JSON API calls
        if not self._check_token(request):
            return self._err(request, 401, 'expired_auth_token')
        try:
            params = json.loads(body or b'{}')
        except ValueError:
            return self._err(request, 400, 'bad_json')
        if op == 'b2:list_buckets':
            return self._json(request, 200, {'buckets': [{'bucketId': 'bother', 'bucketName': 'other-bucket'},
                                                         {'bucketId': self.bucket_id, 'bucketName': self.bucket_name}]})
        if params.get('bucketId') != self.bucket_id:
            return self._err(request, 400, 'bad_bucket_id')
        if op == 'b2:get_upload_url':
            self.counter += 1
            url = f'https://{self.UP}/b2api/v2/b2_upload_file/{self.bucket_id}/c{self.counter}'
            tok = self._new_token()
            self.upload_tokens[url] = tok
            return self._json(request, 200, {'bucketId': self.bucket_id, 'uploadUrl': url, 'authorizationToken': tok})
        if op == 'b2:list_file_names':
            pfx = params.get('prefix') or ''
            start = params.get('startFileName')
            limit = min(int(params.get('maxFileCount', 100)), self.page_size)
            names = sorted(n for n in self.live() if n.startswith(pfx) and (start is None or n >= start))
            page, rest = names[:limit], names[limit:]
            self.pages += 1
            return self._json(request, 200, {'files': [{'fileName': n, 'action': 'upload', 'contentLength': len(self.live()[n])} for n in page],
                                             'nextFileName': rest[0] if rest else None})
        if op == 'b2:hide_file':
            name = params.get('fileName')
            v = self.versions.get(name)
            if not v:
                return self._err(request, 400, 'no_such_file')
            if v[-1][0] == 'hide':
                return self._err(request, 400, 'already_hidden')
            v.append(('hide', None))
            return self._json(request, 200, {'fileName': name, 'action': 'hide'})
        return self._err(request, 400, 'bad_request')


def attach(backend, transport):
    """Make the backend's OWN httpx client talk to the fake: its transport is swapped, everything else the adapter
    configured (event hooks, redirect policy, default headers, timeouts) stays.  The client is found by type, not by the
    attribute it is kept in."""
    clients = [v for v in vars(backend).values() if isinstance(v, httpx.AsyncClient)]
    if clients and all(hasattr(c, '_transport') and hasattr(c, '_mounts') for c in clients):
        for c in clients:
            c._transport = transport
            c._mounts = {}
        return backend
    hooks = backend._client.event_hooks
    backend._client = httpx.AsyncClient(transport=transport, event_hooks=hooks, timeout=None)
    return backend
