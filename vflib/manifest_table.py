"""Single source for MANIFEST.json (tools/mkmanifest.py)."""

RM = 'runtime monitoring: '

CHECKS = [
    {'id': 'C01', 'level': 'exploration', 'ref': 'DESIGN.md section 4 C01',
     'technique': RM + 'differential round trip against harness-side ground truth + reference-reader monitor on the manifest',
     'text': 'Executes the real snapshot+restore on generated trees across the settings lattice, argument shapes (repeats, overlaps, symlinks), pre-existing target states, three backend flavours and concurrency levels; every restored byte, mtime, path and the absence of extra files is compared with ground truth the harness computed itself; every file entry is additionally restored by an independent reader.',
     'note': 'Holds on the executions produced (counts in the evidence). Trusted: the harness tree materialiser, os.walk as ground truth of what the arguments denote, vflib/refimpl.py.'},
    {'id': 'C02', 'level': 'exploration', 'ref': 'DESIGN.md section 4 C02',
     'technique': RM + 'online monitor at the backend boundary (no referenced chunk deleted / overwritten) + reference-reader audit and real restore of every remaining snapshot after each operation of generated multi-user histories',
     'text': 'Generated histories of snapshot / repeat / delete / clean / concurrent non-destructive groups by users related as owner, shared, shared-of-shared, clone and independent (or unencrypted) over one instrumented store. Each backend mutation is judged at the instant it takes effect against the chunk tables of the snapshot objects then present; after every operation an independent reader restores every remaining snapshot and compares it with the captured contents; real restores with the owner key are sampled and run at the end.',
     'note': 'Holds on the histories produced. Destructive commands are never overlapped with others (README). Trusted: vflib/refimpl.py, the in-memory store.'},
    {'id': 'C10', 'level': 'exploration', 'ref': 'DESIGN.md section 4 C10',
     'technique': 'sanitizers + runtime monitoring: src/adapters.cpp recompiled with ASan+UBSan (exact-size heap copies per next_cut call), guard-page and poisoned-tail buffers on the -O2 build, invariant monitors on the real Python adapter',
     'text': 'Every valid (min,max) pair over 15 values x stream lengths (exhaustive 0..6max+7 for max<=16) x contents x segmentations x keys through the real adapter over the freshly compiled chunker: losslessness, no empty chunk, bounds/alignment outside the tail zone, equality of results across differently prepared memory (ASan exact-size heap, PROT_NONE guard page, three poisoned tails), independence from earlier calls and from the segmentation outside the tail zone; next_cut called directly on every buffer size 0..3max+8 x final.',
     'note': 'A clean sanitizer run is absence of reports on the calls made. pybind11 glue is replaced by a 25-line shim (no pybind11 headers on the image); the chunker class is compiled unmodified from the working tree.'},
    {'id': 'C11', 'level': 'exploration', 'ref': 'DESIGN.md section 4 C11 and appendix A',
     'technique': RM + 'relational monitor over boundary sequences of related streams (shared suffix, aligned edits, independent keys) and over chunk tables of two real snapshots',
     'text': 'Pairs of related high-entropy streams through the real adapter: from the first common boundary on boundaries must be equal up to the tail zone; re-synchronisation within D=1024*max (failure probability < 1e-28, appendix A); independent keys give different boundaries; a file stored behind two different predecessors shares its interior chunks between two real snapshots.',
     'note': 'Statistical bound only for random data with min <= max/16 (as the property states); observed re-join distances are reported.'},
]

ALL = ['C%02d' % i for i in range(1, 21)]
_claimed = {c['id'] for c in CHECKS}
NOT_APPLICABLE = [{'property_id': p, 'reason': 'check not built yet in this session (work in progress); the technique applies, see DESIGN.md section 4'}
                  for p in ALL if p not in _claimed]
NOTES = 'All checks: ./vf <ID> quick|thorough; exit 0 held / 1 violation / 2 inconclusive. See DESIGN.md.'
