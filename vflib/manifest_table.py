"""Single source for MANIFEST.json (tools/mkmanifest.py)."""

RM = 'runtime monitoring: '

CHECKS = [
    {'id': 'C01', 'level': 'exploration', 'ref': 'DESIGN.md section 4 C01',
     'technique': RM + 'differential round trip against harness-side ground truth + reference-reader monitor on the manifest',
     'text': 'Executes the real snapshot+restore on generated trees across the settings lattice, argument shapes (repeats, overlaps, symlinks), pre-existing target states, three backend flavours and concurrency levels; every restored byte, mtime, path and the absence of extra files is compared with ground truth the harness computed itself; every file entry is additionally restored by an independent reader.',
     'note': 'Holds on the executions produced (counts in the evidence). Trusted: the harness tree materialiser, os.walk as ground truth of what the arguments denote, vflib/refimpl.py.'},
    {'id': 'C02', 'level': 'exploration', 'ref': 'DESIGN.md section 4 C02',
     'technique': RM + 'online monitor at the backend boundary (no referenced chunk deleted / overwritten) + reference-reader audit and real restore of every remaining snapshot after each operation of generated multi-user histories',
     'text': 'Generated histories of snapshot / repeat / delete / clean / concurrent non-destructive groups by users related as owner, shared, shared-of-shared, clone and independent (or unencrypted) over one instrumented store. Each backend mutation is judged at the instant it takes effect against the chunk tables of the snapshot objects then present; after every operation an independent reader restores every remaining snapshot and compares it with the captured contents; real restores with the owner key are sampled and run at the end.',
     'note': 'Holds on the histories produced. Destructive commands are never overlapped with others (README). Trusted: vflib/refimpl.py, the in-memory store.'},
    {'id': 'C10', 'level': 'exploration', 'ref': 'DESIGN.md section 4 C10',
     'technique': 'sanitizers + runtime monitoring: src/adapters.cpp recompiled with ASan+UBSan (exact-size heap copies per next_cut call), guard-page and poisoned-tail buffers on the -O2 build, invariant monitors on the real Python adapter',
     'text': 'Every valid (min,max) pair over 15 values x stream lengths (exhaustive 0..6max+7 for max<=16) x contents x segmentations x keys through the real adapter over the freshly compiled chunker: losslessness, no empty chunk, bounds/alignment outside the tail zone, equality of results across differently prepared memory (ASan exact-size heap, PROT_NONE guard page, three poisoned tails), independence from earlier calls and from the segmentation outside the tail zone; next_cut called directly on every buffer size 0..3max+8 x final.',
     'note': 'A clean sanitizer run is absence of reports on the calls made. pybind11 glue is replaced by a 25-line shim (no pybind11 headers on the image); the chunker class is compiled unmodified from the working tree.'},
    {'id': 'C11', 'level': 'exploration', 'ref': 'DESIGN.md section 4 C11 and appendix A',
     'technique': RM + 'relational monitor over boundary sequences of related streams (shared suffix, aligned edits, independent keys) and over chunk tables of two real snapshots',
     'text': 'Pairs of related high-entropy streams through the real adapter: from the first common boundary on boundaries must be equal up to the tail zone; re-synchronisation within D=1024*max (failure probability < 1e-28, appendix A); independent keys give different boundaries; a file stored behind two different predecessors shares its interior chunks between two real snapshots.',
     'note': 'Statistical bound only for random data with min <= max/16 (as the property states); observed re-join distances are reported.'},
    {'id': 'C03', 'level': 'fault_enumeration', 'ref': 'DESIGN.md section 4 C03',
     'technique': RM + 'crash-point enumeration (every prefix of the recorded mutation sequence on in-memory backends; os._exit at every audited filesystem mutation and right after every replace/unlink of a child process on the local backend; one permanent failure of the k-th backend call) + follow-up oracle run by fresh Repository objects on each state',
     'text': 'For snapshot, delete and clean on a repository holding two snapshots that share chunks (plus orphans for clean): every state a kill or a permanent backend failure can leave is handed to a follow-up oracle: every listed snapshot restores exactly (the interrupted one fully or not at all), every listed object is complete (content-addressed check by an independent reader), no temporary is listed, a new snapshot of the same data, its restore and clean succeed, and after clean the chunk objects equal the referenced set.',
     'note': 'Power-loss durability is not claimed (the code does not fsync). A kill inside a write() is emulated by truncating temporaries. Kill points of the local backend are sampled per case when a command has more than the per-case budget.'},
    {'id': 'C04', 'level': 'fault_enumeration', 'ref': 'DESIGN.md section 4 C04',
     'technique': RM + 'fault injection on stored objects (corruption families x object kinds x encrypted/plain, singly and in pairs) followed by the real restore; oracle = raised, or byte-equal to the restore model over the snapshots not removed; cache-off and cache-on-with-retries variants',
     'text': 'For repositories written by the real snapshot command, every corruption family of the property (bit flips at first/last/nonce/tag/seeded offsets, truncations, extensions, swaps within and across kinds, replays, deletions), singly and in seeded pairs, is applied to a copy of the object map; the real restore (untargeted or targeted, with the snapshot cache off or on and retried after a failure) must raise or produce exactly what the intact snapshots hold. The three verification branches (chunk hash, snapshot hash, AEAD) must each have been reached.',
     'note': 'Removal of a snapshot object is treated like delete: the snapshot is legitimately absent. Corruptions are enumerated per sampled object, not for every offset of every object.'},
    {'id': 'C06', 'level': 'exploration', 'ref': 'DESIGN.md section 4 C06',
     'technique': RM + 'executable access model over harness-built key graphs compared with observed unlock/list/restore/delete/clean outcomes, stdout and the actor-attributed backend mutation log',
     'text': 'Key graphs of 2-6 keys (owner, shared, shared-of-shared, clone, independent, keys created from inside a long-lived session); full password x key unlock matrix; for every ordered pair of users: listing details, list-files, targeted and untargeted restore, refused deletes with zero mutations, confinement of delete/clean to the caller family, deduplication against same-family users.',
     'note': 'Access model stated in DESIGN.md (family = root of the shared chain, reader = exact key). Unencrypted repositories have no keys and are not part of this check.'},
    {'id': 'C07', 'level': 'exploration', 'ref': 'DESIGN.md section 4 C07',
     'technique': RM + 'set-equality audit by an independent reader after every operation of crash-free histories + payload-event monitor on repeat snapshots + cross-process repeat with a different PYTHONHASHSEED over a Local directory',
     'text': 'After every operation of crash-free multi-user histories the chunk objects of each key family must equal the locations referenced by its snapshot objects; repeat snapshots of unchanged data (same user, same-family user, shuffled argument order, long-lived or per-command Repository objects, one object re-unlocked with different keys) must transfer no chunk payload; independent families must not share names; a second interpreter must find every chunk already stored.',
     'note': 'Holds on the histories produced. Trusted: vflib/refimpl.py (cross-checked by C14).'},
    {'id': 'C08', 'level': 'exploration', 'ref': 'DESIGN.md section 4 C08',
     'technique': RM + 'before/after store images + reference-reader set equalities around every completed delete/clean, starting from orphan-carrying states produced by interrupted commands; contract monitor on the location builder/parser',
     'text': 'Histories over several key families with interrupted snapshots and deletes (permanent backend faults) that leave orphans; after each completed delete no chunk referenced only by the deleted snapshots remains (also when the command completed despite a failing deletion); after each completed clean the caller family holds exactly the referenced chunks; other families, config and foreign objects stay byte-identical; builder/parser of locations are mutual inverses on every call.',
     'note': 'Holds on the histories produced. Orphan states come from injected permanent faults, not from process kills (those are C03).'},
    {'id': 'C09', 'level': 'exploration', 'ref': 'DESIGN.md section 4 C09',
     'technique': RM + 'sys.monitoring LINE/CALL yield injection (extra delays at calls on queue/future/event/lock objects, one victim side at a time) + seeded backend latencies; differential against a sequential run; online in-flight<=N invariant; slot-queue invariant at quiescence; quiescent-deadlock detector; process-exit probe',
     'text': 'The real snapshot and restore at N in {1,2,3,5,16} on thread and coroutine backends under sampled schedules: result must equal the sequential run, in-flight transfers never exceed N, all slots are back once everything the operation started has ended (after success and after an injected permanent fault), nothing deadlocks, and a failing command lets the interpreter exit.',
     'note': 'Schedules are sampled, not enumerated: the evidence reports distinct completion orders and interleaving signatures seen. CPython has no race detector; absence of races is not claimed.'},
]

ALL = ['C%02d' % i for i in range(1, 21)]
_claimed = {c['id'] for c in CHECKS}
NOT_APPLICABLE = [{'property_id': p, 'reason': 'check not built yet in this session (work in progress); the technique applies, see DESIGN.md section 4'}
                  for p in ALL if p not in _claimed]
NOTES = 'All checks: ./vf <ID> quick|thorough; exit 0 held / 1 violation / 2 inconclusive. See DESIGN.md.'
