"""Single source for MANIFEST.json (tools/mkmanifest.py)."""

CHECKS = [
    {'id': 'C01', 'level': 'exploration', 'ref': 'DESIGN.md section 4 C01',
     'technique': 'runtime monitoring: differential round trip against harness-side ground truth + reference-reader monitor on the manifest',
     'text': 'Executes the real snapshot+restore on generated trees across the settings lattice, argument shapes (repeats, overlaps, symlinks), pre-existing target states, three backend flavours and concurrency levels; every restored byte, mtime, path and the absence of extra files is compared with ground truth the harness computed itself; every file entry is additionally restored by an independent reader.',
     'note': 'Holds on the executions produced (counts in the evidence). Trusted: the harness tree materialiser, os.walk as ground truth of what the arguments denote, vflib/refimpl.py.'},
]

ALL = ['C%02d' % i for i in range(1, 21)]
_claimed = {c['id'] for c in CHECKS}
NOT_APPLICABLE = [{'property_id': p, 'reason': 'check not built yet in this session (work in progress); the technique applies, see DESIGN.md section 4'}
                  for p in ALL if p not in _claimed]
NOTES = 'All checks: ./vf <ID> quick|thorough; exit 0 held / 1 violation / 2 inconclusive. See DESIGN.md.'
