"""Independent reference of replicat's repository format (reader and writer), written from
the README and the format description in DESIGN.md section 3.3.  Imports nothing from
replicat: only hashlib, json, base64, os and `cryptography`."""
import base64
import hashlib
import json
import os

from cryptography.exceptions import InvalidTag
from cryptography.hazmat.primitives.ciphers.aead import AESGCM, ChaCha20Poly1305
from cryptography.hazmat.primitives.kdf.scrypt import Scrypt


class FormatError(Exception):
    pass


class AuthError(FormatError):
    pass


# -- JSON with tagged byte strings ------------------------------------------------------------

def _hook(obj):
    if len(obj) == 1 and '!b' in obj:
        return base64.standard_b64decode(obj['!b'])
    return obj


def loads(data):
    return json.loads(data, object_hook=_hook)


def _default(o):
    if isinstance(o, (bytes, bytearray, memoryview)):
        return {'!b': base64.standard_b64encode(bytes(o)).decode('ascii')}
    raise TypeError(type(o))


def dumps(obj):
    return json.dumps(obj, separators=(',', ':'), default=_default).encode('ascii')


# -- primitives ---------------------------------------------------------------------------------

def make_hash(cfg):
    name = cfg['name']
    if name == 'blake2b':
        n = cfg.get('length', 64)
        return lambda data: hashlib.blake2b(data, digest_size=n).digest()
    if name == 'sha2':
        f = getattr(hashlib, 'sha%d' % cfg.get('bits', 512))
        return lambda data: f(data).digest()
    if name == 'sha3':
        f = getattr(hashlib, 'sha3_%d' % cfg.get('bits', 512))
        return lambda data: f(data).digest()
    raise FormatError(f'unknown hash {name}')


def make_mac(cfg):
    if cfg['name'] != 'blake2b':
        raise FormatError('unknown mac')
    n = cfg.get('length', 64)
    return lambda msg, key: hashlib.blake2b(msg, digest_size=n, key=key).digest()


def make_kdf(cfg):
    name = cfg['name']
    if name == 'blake2b':
        n = cfg.get('length', 64)
        return lambda ikm, salt, ctx=b'': hashlib.blake2b(ctx, salt=salt, digest_size=n, key=ikm).digest()
    if name == 'scrypt':
        def derive(ikm, salt, ctx=b''):
            return Scrypt(salt=salt + ctx, length=cfg['length'], n=cfg.get('n', 1 << 20),
                          r=cfg.get('r', 8), p=cfg.get('p', 1)).derive(ikm)
        return derive
    raise FormatError(f'unknown kdf {name}')


class Cipher:
    def __init__(self, cfg):
        name = cfg['name']
        if name == 'aes_gcm':
            self.cls, self.key_bytes = AESGCM, cfg.get('key_bits', 256) // 8
            self.nonce_bytes = cfg.get('nonce_bits', 96) // 8
        elif name == 'chacha20_poly1305':
            self.cls, self.key_bytes, self.nonce_bytes = ChaCha20Poly1305, 32, 12
        else:
            raise FormatError(f'unknown cipher {name}')

    def decrypt(self, blob, key):
        nonce, ct = blob[:self.nonce_bytes], blob[self.nonce_bytes:]
        try:
            return self.cls(key).decrypt(nonce, ct, None)
        except (InvalidTag, ValueError) as e:
            raise AuthError('authentication failed') from e

    def encrypt(self, data, key, nonce=None):
        nonce = nonce or os.urandom(self.nonce_bytes)
        return nonce + self.cls(key).encrypt(nonce, data, None)

    def nonce_of(self, blob):
        return blob[:self.nonce_bytes]


# -- locations ----------------------------------------------------------------------------------

def chunk_location(name_hex, tag_hex):
    return f'data/{tag_hex[:2]}/{tag_hex[2:4]}/{tag_hex[4:]}-{name_hex}'


def snapshot_location(name_hex, tag_hex):
    return f'snapshots/{tag_hex[:2]}/{tag_hex[2:]}-{name_hex}'


def parse_chunk_location(loc):
    parts = loc.split('/')
    if len(parts) != 4 or parts[0] != 'data' or '-' not in parts[3]:
        raise FormatError(f'not a chunk location: {loc}')
    rest, _, name = parts[3].rpartition('-')
    if len(parts[1]) != 2 or len(parts[2]) != 2:
        raise FormatError(f'bad chunk location: {loc}')
    return name, parts[1] + parts[2] + rest


def parse_snapshot_location(loc):
    parts = loc.split('/')
    if len(parts) != 3 or parts[0] != 'snapshots' or '-' not in parts[2]:
        raise FormatError(f'not a snapshot location: {loc}')
    rest, _, name = parts[2].rpartition('-')
    if len(parts[1]) != 2:
        raise FormatError(f'bad snapshot location: {loc}')
    return name, parts[1] + rest


# -- the reader ---------------------------------------------------------------------------------

class Ref:
    """One user's view of a repository: config + (key, password) for encrypted ones."""

    def __init__(self, config_bytes, key_bytes=None, password=None):
        self.config = loads(config_bytes)
        for sect in ('hashing', 'chunking'):
            if sect not in self.config:
                raise FormatError(f'config lacks {sect}')
        self.hash = make_hash(self.config['hashing'])
        enc = self.config.get('encryption')
        self.encrypted = enc is not None
        self.cipher = Cipher(enc['cipher']) if self.encrypted else None
        self.userkey = self.private = None
        if self.encrypted and key_bytes is not None:
            key = loads(key_bytes) if isinstance(key_bytes, (bytes, str)) else key_bytes
            self.key = key
            self.userkey = make_kdf(key['kdf'])(password, key['kdf_params'])
            if len(self.userkey) != self.cipher.key_bytes:
                raise FormatError('user key length does not match the cipher')
            private = key['private']
            if isinstance(private, bytes):
                private = loads(self.cipher.decrypt(private, self.userkey))
            self.private = private
            self._mac = make_mac(private['mac'])
            self._shared_kdf = make_kdf(private['shared_kdf'])

    # keyed helpers
    def mac(self, msg):
        return self._mac(msg, self.private['mac_params'])

    def shared_subkey(self, ctx):
        return self._shared_kdf(self.private['shared_key'], self.private['shared_kdf_params'], ctx)

    def chunk_name_tag(self, digest):
        if self.encrypted:
            m = self.mac(digest)
            return m.hex(), self.mac(m).hex()
        return digest.hex(), digest.hex()

    def chunk_loc(self, digest):
        return chunk_location(*self.chunk_name_tag(digest))

    def snapshot_name_tag(self, digest):
        return digest.hex(), (self.mac(digest).hex() if self.encrypted else digest.hex())

    def owns_chunk_location(self, loc):
        name, tag = parse_chunk_location(loc)
        if not self.encrypted:
            return name == tag
        try:
            return self.mac(bytes.fromhex(name)).hex() == tag
        except ValueError:
            return False

    def owns_snapshot_location(self, loc):
        name, tag = parse_snapshot_location(loc)
        if not self.encrypted:
            return name == tag
        try:
            return self.mac(bytes.fromhex(name)).hex() == tag
        except ValueError:
            return False

    def decode_chunk(self, blob, digest):
        """Authenticate + decrypt a chunk object that should hold the plaintext with `digest`."""
        plain = self.cipher.decrypt(blob, self.shared_subkey(digest)) if self.encrypted else blob
        if self.hash(plain) != digest:
            raise AuthError('chunk does not hash to its digest')
        return plain

    def decode_snapshot(self, loc, blob):
        """Returns {'chunks': [digest…], 'data': dict|None (None: other user's private data),
        'name_ok': bool}."""
        name, tag = parse_snapshot_location(loc)
        name_ok = self.hash(blob).hex() == name
        body = loads(blob)
        if set(body) != {'chunks', 'data'}:
            raise FormatError(f'snapshot keys {sorted(body)}')
        if self.encrypted:
            if not isinstance(body['chunks'], bytes) or not isinstance(body['data'], bytes):
                raise FormatError('encrypted snapshot parts must be byte strings')
            table_key = self.shared_subkey(self.hash(body['data']))
            chunks = loads(self.cipher.decrypt(body['chunks'], table_key))
            try:
                data = loads(self.cipher.decrypt(body['data'], self.userkey))
            except AuthError:
                data = None
        else:
            chunks, data = body['chunks'], body['data']
        if not isinstance(chunks, list) or not all(isinstance(c, bytes) for c in chunks):
            raise FormatError('chunk table must be a list of byte strings')
        return {'chunks': chunks, 'data': data, 'name_ok': name_ok, 'raw': body}

    def check_file_entry(self, f, nchunks):
        """Structural check of one file entry; returns ordered refs."""
        for k in ('path', 'chunks', 'digest', 'metadata'):
            if k not in f:
                raise FormatError(f'file entry lacks {k}')
        refs = sorted(f['chunks'], key=lambda c: c['counter'])
        for c in refs:
            if set(c) != {'range', 'index', 'counter'}:
                raise FormatError(f'chunk ref keys {sorted(c)}')
            a, b = c['range']
            if not (0 <= a <= b) or not (0 <= c['index'] < nchunks):
                raise FormatError(f'bad chunk ref {c}')
        return refs

    def restore_file(self, f, table, fetch):
        """Reference restore: concatenate chunk[range] in counter order."""
        out = bytearray()
        for c in self.check_file_entry(f, len(table)):
            digest = table[c['index']]
            plain = self.decode_chunk(fetch(self.chunk_loc(digest)), digest)
            a, b = c['range']
            if b > len(plain):
                raise FormatError(f'range {c["range"]} beyond chunk of {len(plain)} bytes')
            out += plain[a:b]
        return bytes(out)


def referenced_locations(ref, objects, strict=True):
    """Union of chunk locations referenced by every snapshot object this user's family can
    decode. Returns (set(locations), {snapshot_loc: decoded})."""
    locs, snaps = set(), {}
    for name, blob in objects.items():
        if not name.startswith('snapshots/'):
            continue
        try:
            if not ref.owns_snapshot_location(name):
                continue
            dec = ref.decode_snapshot(name, blob)
        except FormatError:
            if strict:
                raise
            continue
        snaps[name] = dec
        for d in dec['chunks']:
            locs.add(ref.chunk_loc(d))
    return locs, snaps


# -- the writer ---------------------------------------------------------------------------------

class Writer:
    """Builds a repository following the scheme, with chunk boundaries of the caller's
    choosing."""

    def __init__(self, hashing, chunking, cipher_cfg=None, password=b'pw', kdf=None, rng=None):
        self.rng = rng
        self.config = {'hashing': dict(hashing), 'chunking': dict(chunking, name='gclmulchunker')}
        self.password = password
        self.hash = make_hash(hashing)
        self.encrypted = cipher_cfg is not None
        self.objects = {}
        self.key_bytes = None
        if self.encrypted:
            self.config['encryption'] = {'cipher': dict(cipher_cfg)}
            self.cipher = Cipher(cipher_cfg)
            kb = self.cipher.key_bytes
            kdf = dict(kdf or {'name': 'scrypt', 'n': 4, 'r': 8, 'p': 1})
            kdf['length'] = kb
            salt = self._rand(kb if kdf['name'] == 'scrypt' else 16)
            self.userkey = make_kdf(kdf)(password, salt)
            self.private = {
                'shared_key': self._rand(kb),
                'shared_kdf': {'length': kb, 'name': 'blake2b'},
                'shared_kdf_params': self._rand(16),
                'mac': {'length': 64, 'name': 'blake2b'},
                'mac_params': self._rand(64),
                'chunker_params': self._rand(16),
            }
            key = {'kdf': kdf, 'kdf_params': salt,
                   'private': self.cipher.encrypt(dumps(self.private), self.userkey,
                                                  self._rand(self.cipher.nonce_bytes))}
            self.key_bytes = dumps(key)
            self._mac = make_mac(self.private['mac'])
            self._skdf = make_kdf(self.private['shared_kdf'])
        self.objects['config'] = dumps(self.config)

    def _rand(self, n):
        return self.rng.randbytes(n) if self.rng else os.urandom(n)

    def mac(self, m):
        return self._mac(m, self.private['mac_params'])

    def subkey(self, ctx):
        return self._skdf(self.private['shared_key'], self.private['shared_kdf_params'], ctx)

    def put_chunk(self, plain):
        d = self.hash(plain)
        if self.encrypted:
            m = self.mac(d)
            loc = chunk_location(m.hex(), self.mac(m).hex())
            blob = self.cipher.encrypt(plain, self.subkey(d), self._rand(self.cipher.nonce_bytes))
        else:
            loc, blob = chunk_location(d.hex(), d.hex()), plain
        self.objects.setdefault(loc, blob)
        return d

    def put_snapshot(self, files, timestamp, note=None, legacy_metadata=False, layout='per-file',
                     piece=7):
        """files: [(path, bytes, metadata dict)].  layout: 'per-file' (each file cut into
        pieces of `piece` bytes), 'bytes' (single-byte chunks), 'span' (one chunk spanning all
        files), 'shared' (files reference different ranges of one big chunk plus a tail)."""
        table, entries, counter = {}, [], 0

        def idx(plain):
            d = self.put_chunk(plain)
            return table.setdefault(d, len(table))

        if layout == 'span':
            blob = b''.join(c for _, c, _ in files)
            if blob:
                i = idx(blob)
            off = 0
        for path, data, md in files:
            refs = []
            if layout == 'span':
                if data:
                    counter += 1
                    refs.append({'range': [off, off + len(data)], 'index': i, 'counter': counter})
                off += len(data)
            elif layout == 'shared':
                # store data twice inside a bigger chunk, reference the second copy
                if data:
                    pad = b'\xAA' * 5
                    i2 = idx(pad + data + pad + data)
                    counter += 1
                    half = len(data) // 2
                    refs.append({'range': [5 + len(data) + 5, 5 + len(data) + 5 + half],
                                 'index': i2, 'counter': counter})
                    counter += 1
                    refs.append({'range': [5 + half, 5 + len(data)], 'index': i2, 'counter': counter})
            else:
                step = 1 if layout == 'bytes' else piece
                # counters deliberately not in list order: the reader must sort by counter
                pieces = [data[o:o + step] for o in range(0, len(data), step)]
                base = counter
                for n, pc in enumerate(pieces):
                    refs.append({'range': [0, len(pc)], 'index': idx(pc), 'counter': base + n + 1})
                counter += len(pieces)
                refs.reverse()
            if legacy_metadata:
                md = {k: v for k, v in md.items() if not k.endswith('_ns')}
            entries.append({'path': path, 'chunks': refs, 'digest': self.hash(data), 'metadata': md})
        data_part = {'utc_timestamp': timestamp, 'files': entries}
        if note is not None:
            data_part['note'] = note
        chunks = list(table)
        if self.encrypted:
            enc_data = self.cipher.encrypt(dumps(data_part), self.userkey,
                                           self._rand(self.cipher.nonce_bytes))
            body = {'chunks': self.cipher.encrypt(dumps(chunks), self.subkey(self.hash(enc_data)),
                                                  self._rand(self.cipher.nonce_bytes)),
                    'data': enc_data}
        else:
            body = {'chunks': chunks, 'data': data_part}
        blob = dumps(body)
        d = self.hash(blob)
        tag = self.mac(d).hex() if self.encrypted else d.hex()
        loc = snapshot_location(d.hex(), tag)
        self.objects[loc] = blob
        return loc, d.hex()
