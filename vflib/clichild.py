"""I8: runs replicat's program entry point for a batch of scenarios, each with freshly imported replicat
modules (argparse parent parsers are mutated by set_defaults, so state must not leak between runs), a
synthetic environment, configuration file and command line.  `_cmd_handler` is replaced by a recorder,
so no command actually runs; the backend constructor arguments are captured by instantiating the backend
class the same way the real handler would.

stdin: JSON {'scenarios': [{'argv': [...], 'env': {...}, 'config': str|None, 'cwd': dir}], 'pythonpath': [dirs]}
stdout: one JSON line per scenario.
"""
import asyncio
import io
import json
import os
import sys
from pathlib import Path


def _ser(v):
    if isinstance(v, (bytes, bytearray)):
        return {'bytes': bytes(v).decode('latin-1')}
    if isinstance(v, Path):
        return {'path': str(v)}
    if isinstance(v, (list, tuple)):
        return [_ser(x) for x in v]
    if isinstance(v, dict):
        return {str(k): _ser(x) for k, x in v.items()}
    if isinstance(v, (str, int, float, bool)) or v is None:
        return v
    if hasattr(v, 'value') and isinstance(getattr(v, 'value'), str):
        return v.value
    return {'repr': repr(v)}


def run_one(sc, base_env):
    for k in list(os.environ):
        if k not in base_env:
            del os.environ[k]
    os.environ.update(base_env)
    os.environ.update(sc.get('env') or {})
    os.chdir(sc['cwd'])
    for m in [m for m in sys.modules if m == 'replicat' or m.startswith('replicat.')]:
        del sys.modules[m]
    out = {'id': sc.get('id')}
    old_argv, old_out, old_err = sys.argv, sys.stdout, sys.stderr
    sys.argv = ['replicat'] + list(sc['argv'])
    sys.stdout, sys.stderr = io.StringIO(), io.StringIO()
    import logging
    root = logging.getLogger()
    for h in list(root.handlers):
        root.removeHandler(h)
    try:
        import replicat.__main__ as rm
        rec = {}

        async def recorder(backend_type, connection_string, args, settings):
            rec['backend_type'] = backend_type.__name__
            rec['short_name'] = getattr(backend_type, 'short_name', None)
            rec['connection'] = connection_string
            rec['args'] = {k: _ser(v) for k, v in vars(args).items()}
            rec['settings'] = _ser(settings)
            captured = {}
            orig_init = backend_type.__init__

            def spy_init(self, connection_string, **kw):
                captured['connection'] = connection_string
                captured['kwargs'] = kw
            import inspect
            spy_init.__signature__ = inspect.signature(orig_init)       # the handler reads the keyword-only parameters
            backend_type.__init__ = spy_init
            try:
                rm._instantiate_backend(backend_type, connection_string, vars(args))
            finally:
                backend_type.__init__ = orig_init
            rec['ctor'] = {k: _ser(v) for k, v in captured.get('kwargs', {}).items()}
        rm._cmd_handler = recorder
        rm.main()
        out.update(rec)
        out['ok'] = True
    except SystemExit as e:
        out.update(ok=False, exit=e.code if isinstance(e.code, int) else 1, error='SystemExit')
    except BaseException as e:
        out.update(ok=False, exit=None, error=f'{type(e).__name__}: {e}'[:300])
    finally:
        out['stderr'] = sys.stderr.getvalue()[-300:]
        sys.argv, sys.stdout, sys.stderr = old_argv, old_out, old_err
    return out


def main():
    spec = json.load(sys.stdin)
    for p in reversed(spec.get('pythonpath') or []):
        sys.path.insert(0, p)
    base_env = {k: v for k, v in os.environ.items()
                if not (k.startswith(('REPLICAT_', 'VFSPY', 'SPY', 'S3', 'B2', 'LOCAL_')))}
    base_env.update(spec.get('base_env') or {})
    for sc in spec['scenarios']:
        res = run_one(sc, base_env)
        sys.__stdout__.write(json.dumps(res) + '\n')
        sys.__stdout__.flush()


if __name__ == '__main__':
    main()
