"""I5 / section 3.5: virtual time.

`Baton`: a deterministic discrete-event scheduler over real threads.  Participants run one at a time
(baton passing, seeded tie-breaks); sleep(dt) parks the caller until virtual time reaches its wake-up;
time only advances when every participant is parked.  `VLock` is a scheduler-aware lock that replaces the
limiter's own locks, so that a thread blocked on the lock yields the baton instead of blocking for real.

`SimpleClock`: perf_counter() = virtual now, sleep(dt) advances it at once.  Sound for one stream at a time.
"""
import random
import threading


class Deadlock(Exception):
    pass


class Watchdog(Exception):
    """The run is still making progress but exceeded the harness's wall-clock budget: inconclusive, never a verdict."""


class Baton:
    def __init__(self, seed=0, overshoot=0.0):
        self.now = 0.0
        self.rng = random.Random(seed)
        self.cv = threading.Condition()
        self.state = {}          # thread ident -> ('ready',) | ('sleep', wake) | ('blocked', lock) | ('done',)
        self.running = None
        self.overshoot = overshoot
        self.sleeps = []         # requested sleep lengths
        self.error = None
        self.switches = 0        # scheduling decisions taken: the run's logical progress

    # -- the module-like face given to replicat.utils.time -----------------------------------------------
    def perf_counter(self):
        return self.now

    def sleep(self, dt):
        self.sleeps.append(dt)
        if dt < 0:
            raise ValueError('sleep length must be non-negative')
        self._park(('sleep', self.now + dt + (self.overshoot if dt > 0 else 0.0)))

    def monotonic(self):
        return self.now

    def time(self):
        return self.now

    # -- scheduling -------------------------------------------------------------------------------------------
    def _pick(self):
        """Called with cv held and nobody running."""
        ready = sorted(t for t, s in self.state.items() if s[0] == 'ready')
        if not ready:
            sleepers = [(s[1], t) for t, s in self.state.items() if s[0] == 'sleep']
            if not sleepers:
                if all(s[0] == 'done' for s in self.state.values()):
                    self.running = None
                    return
                self.error = Deadlock(f'all participants blocked: {self.state}')
                self.running = None
                return
            wake = min(w for w, _ in sleepers)
            self.now = max(self.now, wake)
            for w, t in sleepers:
                if w <= self.now:
                    self.state[t] = ('ready',)
            ready = sorted(t for t, s in self.state.items() if s[0] == 'ready')
        self.running = self.rng.choice(ready)
        self.switches += 1
        self.state[self.running] = ('running',)

    def _park(self, new_state):
        me = threading.get_ident()
        with self.cv:
            self.state[me] = new_state
            self.running = None
            self._pick()
            self.cv.notify_all()
            while self.running != me:
                if self.error is not None:
                    raise self.error
                self.cv.wait(5)

    def yield_(self):
        self._park(('ready',))

    def run(self, functions):
        """Run the callables as participants; returns when all are done.  Exceptions propagate."""
        errors = []
        threads = []
        started = threading.Barrier(len(functions) + 1)

        def body(fn):
            me = threading.get_ident()
            with self.cv:
                self.state[me] = ('ready',)
            started.wait()
            with self.cv:
                while self.running != me:
                    if self.error is not None:
                        return
                    self.cv.wait(5)
            try:
                fn()
            except BaseException as e:           # noqa: B902
                errors.append(e)
            finally:
                with self.cv:
                    self.state[me] = ('done',)
                    self.running = None
                    self._pick()
                    self.cv.notify_all()
        for fn in functions:
            t = threading.Thread(target=body, args=(fn,), daemon=True)
            t.start()
            threads.append(t)
        started.wait()
        with self.cv:
            self._pick()
            self.cv.notify_all()
        # a participant that does not finish is a deadlock only if the schedule has stopped moving (logical condition: no
        # scheduling decision for 20 s); a run that is merely long ends at the wall-clock budget as Watchdog = inconclusive
        import time as _time
        t0 = _time.monotonic()
        for t in threads:
            last, last_change = self.switches, _time.monotonic()
            while True:
                t.join(1.0)
                if not t.is_alive():
                    break
                now = _time.monotonic()
                if self.switches != last:
                    last, last_change = self.switches, now
                elif now - last_change > 20:
                    raise Deadlock(f'participant did not finish and no scheduling decision was taken for 20 s: {self.state}')
                if now - t0 > 240:
                    raise Watchdog(f'virtual-time run still moving after 240 s ({self.switches} scheduling decisions)')
        if self.error is not None:
            raise self.error
        if errors:
            raise errors[0]


class VLock:
    """Drop-in for threading.Lock inside a Baton run."""

    def __init__(self, baton, reentrant=False):
        self.baton, self.owner = baton, None
        self.acquisitions = 0
        self.reentrant, self.depth = reentrant, 0

    def acquire(self, blocking=True, timeout=-1):
        me = threading.get_ident()
        if self.reentrant and self.owner == me:
            self.depth += 1
            return True
        while self.owner is not None:
            if not blocking:
                return False
            self.baton._park(('blocked', id(self)))
        self.owner = me
        self.acquisitions += 1
        return True

    def release(self):
        if self.reentrant and self.depth:
            self.depth -= 1
            return
        self.owner = None
        b = self.baton
        with b.cv:
            for t, s in list(b.state.items()):
                if s == ('blocked', id(self)):
                    b.state[t] = ('ready',)

    def locked(self):
        return self.owner is not None

    def __enter__(self):
        self.acquire()
        return self

    def __exit__(self, *exc):
        self.release()


class SimpleClock:
    def __init__(self):
        self.now = 0.0
        self.lock = threading.Lock()
        self.sleeps = []

    def perf_counter(self):
        return self.now

    def monotonic(self):
        return self.now

    def time(self):
        return self.now

    def sleep(self, dt):
        with self.lock:
            self.sleeps.append(dt)
            self.now += max(dt, 0)


def worst_window(events, limit):
    """events: [(t, nbytes)] in any order.  Returns (max over windows [t_i, t_j] of bytes - limit*(t_j - t_i), i, j)."""
    ev = sorted(events)
    best, bi, bj = float('-inf'), 0, 0
    prefix = 0
    min_b, min_i = None, 0
    for j, (t, n) in enumerate(ev):
        b = prefix - limit * t          # B_j = S_{j-1} - L t_j
        if min_b is None or b < min_b:
            min_b, min_i = b, j
        prefix += n
        a = prefix - limit * t          # A_j = S_j - L t_j
        if a - min_b > best:
            best, bi, bj = a - min_b, min_i, j
    return best, bi, bj, ev
