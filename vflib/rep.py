"""Driving the real replicat package from a worker: bridge install, output capture, clock
substitution (I5), small conveniences.  Importing this module installs the freshly compiled
native chunker as `_replicat_adapters` BEFORE replicat.repository is imported."""
import asyncio
import contextlib
import copy
import io
import json
import os
import sys
import datetime as _dt

from . import native

BRIDGE = native.install(os.environ.get('VF_NATIVE_KIND', 'plain'),
                        os.environ.get('VF_NATIVE_MODE', 'direct'))

import replicat.repository as repository_mod            # noqa: E402
from replicat import exceptions                          # noqa: E402
from replicat.repository import Repository              # noqa: E402
from replicat.utils import adapters                      # noqa: E402

PASSWORD = b'vf-password'


class Captured:
    def __init__(self):
        self.out = io.StringIO()
        self.err = io.StringIO()

    @property
    def stdout(self):
        return self.out.getvalue()

    @property
    def stderr(self):
        return self.err.getvalue()


RECORD = None       # a list: every Captured is appended (C05 scans everything the commands print)


@contextlib.contextmanager
def capture():
    cap = Captured()
    if RECORD is not None:
        RECORD.append(cap)
    with contextlib.redirect_stdout(cap.out), contextlib.redirect_stderr(cap.err):
        yield cap


def run(coro):
    """asyncio.run with a fresh loop."""
    return asyncio.run(coro)


def new_repo(backend, concurrent=2, cache=None):
    return Repository(backend, concurrent=concurrent, quiet=True, cache_directory=cache)


async def init(backend, settings, password=PASSWORD, concurrent=2, key_output_path=None):
    """Returns (repo, key_json_or_None, captured)."""
    repo = new_repo(backend, concurrent)
    with capture() as cap:
        res = await repo.init(password=password, settings=copy.deepcopy(settings),
                              key_output_path=key_output_path)
    key = res.key
    key_bytes = repo.serialize(key) if key is not None else None
    return repo, key_bytes, cap


async def unlocked(backend, key=None, password=PASSWORD, concurrent=2, cache=None):
    repo = new_repo(backend, concurrent, cache)
    with capture():
        await repo.unlock(password=password, key=key)
    return repo


async def add_key(backend, key, password, new_password, shared, settings=None, clone=False):
    repo = new_repo(backend, 2)
    with capture() as cap:
        if shared or clone:
            await repo.unlock(password=password, key=key)
        res = await repo.add_key(password=new_password if not clone else password,
                                 settings=copy.deepcopy(settings), shared=shared or clone)
    return repo.serialize(res.new_key), cap


# -- I5: time ---------------------------------------------------------------------------------

async def list_names(backend, prefix=''):
    """Every name the backend lists under the prefix, through its public list_files only (plain or async generator)."""
    import asyncio
    import inspect
    if inspect.isasyncgenfunction(backend.list_files):
        return [n async for n in backend.list_files(prefix)]
    res = await asyncio.get_running_loop().run_in_executor(None, lambda: list(backend.list_files(prefix)))
    return res


async def fetch(backend, name):
    """One object's bytes through the backend's public download (plain or coroutine)."""
    import asyncio
    import inspect
    if inspect.iscoroutinefunction(backend.download):
        return bytes(await backend.download(name))
    return bytes(await asyncio.get_running_loop().run_in_executor(None, backend.download, name))


class Clock:
    """Settable utcnow() for replicat.repository (snapshot timestamps)."""

    def __init__(self, start=None, step=_dt.timedelta(seconds=1), seq=None):
        self.now = start or _dt.datetime(2024, 1, 1, 0, 0, 0)
        self.step = step
        self.reads = 0
        self.seq = list(seq) if seq else None     # explicit values served first (same second, usec 0, non-monotone)
        self.served = []

    def install(self):
        clock = self
        real = _dt.datetime

        class _DT(real):
            @classmethod
            def utcnow(cls):
                clock.reads += 1
                if clock.seq:
                    v = clock.seq.pop(0)
                else:
                    v = clock.now
                    clock.now = clock.now + clock.step
                clock.served.append(v)
                return v

        self._orig = repository_mod.datetime
        repository_mod.datetime = _DT
        return self

    def uninstall(self):
        repository_mod.datetime = self._orig


def body_files(result):
    """{path: file entry} of a snapshot() return value."""
    return {f['path']: f for f in result.data['files']}


def _assert_tree():
    from .paths import REPO
    have = os.path.realpath(repository_mod.__file__)
    want = os.path.realpath(str(REPO))
    if not have.startswith(want + os.sep):
        raise RuntimeError(f'replicat imported from {have}, expected the tree at {want}')


_assert_tree()
