"""Process-level termination probe (C09): a command that fails must not keep the interpreter alive.

usage: python -m vflib.procexit <json-spec>
Builds a small repository on an in-memory backend, runs snapshot or restore with one injected
permanent backend fault through asyncio.run (as the CLI does), expects the fault to propagate, and
then RETURNS from main so that the interpreter performs its normal shutdown (which joins every
non-daemon thread).  A daemon watchdog decides on a logical condition: after the command returned,
two identical stack samples of all threads one second apart => the process will never exit =>
prints DEADLOCK with the stacks and exits 97.
"""
import asyncio
import json
import os
import random
import sys
import tempfile
import threading
import time
from pathlib import Path


def main():
    spec = json.loads(sys.argv[1])
    from . import membackend, rep, sched
    r = random.Random(spec['seed'])
    store = membackend.Store(spec['seed'])
    backend = membackend.make_backend(store, spec['flavour'])
    scratch = tempfile.mkdtemp(prefix='vf-pexit-', dir=spec['scratch'])
    src = os.path.join(scratch, 'src')
    os.makedirs(src)
    mx = spec['settings']['chunking']['max_length']
    for i in range(spec['nfiles']):
        with open(os.path.join(src, f'f{i}'), 'wb') as f:
            f.write(r.randbytes(r.randrange(mx, spec['maxsize'])))
    state = {'phase': 'setup', 'outcome': None}

    def watchdog():
        while state['phase'] != 'returned':
            time.sleep(0.05)
        t0 = time.monotonic()
        me = threading.get_ident()
        time.sleep(1.5)
        while True:
            a = sched.stack_signature(skip=(me,))
            time.sleep(1.0)
            b = sched.stack_signature(skip=(me,))
            if a == b:
                sys.stderr.write('DEADLOCK ' + json.dumps({'outcome': state['outcome'], 'stacks': b}) + '\n')
                sys.stderr.flush()
                os._exit(97)
            if time.monotonic() - t0 > 40:
                os._exit(98)
    threading.Thread(target=watchdog, daemon=True).start()

    async def prepare():
        _, key, _ = await rep.init(backend, spec['settings'], concurrent=2)
        repo = await rep.unlocked(backend, key, concurrent=2)
        with rep.capture():
            await repo.snapshot(paths=[Path(src)])
        return key
    key = asyncio.run(prepare())
    if spec.get('latency'):
        store.latency = membackend.random_latency(spec['seed'] | 1, scale=0.002)
    store.faults = [dict(spec['fault'])]

    async def command():
        repo = await rep.unlocked(backend, key, concurrent=spec['concurrent'])
        with rep.capture():
            if spec['command'] == 'restore':
                await repo.restore(path=Path(scratch, 'target'))
            else:
                with open(os.path.join(src, 'new'), 'wb') as f:
                    f.write(r.randbytes(spec['maxsize']))
                await repo.snapshot(paths=[Path(src)])
    state['phase'] = 'command'
    try:
        asyncio.run(command())
        state['outcome'] = 'returned'
    except BaseException as e:
        state['outcome'] = f'raised {type(e).__name__}'
    sys.stdout.write(json.dumps({'outcome': state['outcome'], 'fault_hits': store.fault_hits}) + '\n')
    sys.stdout.flush()
    import shutil
    shutil.rmtree(scratch, ignore_errors=True)
    state['phase'] = 'returned'
    # normal interpreter shutdown from here on


if __name__ == '__main__':
    main()
