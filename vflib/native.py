"""Rebuild src/adapters.cpp from the working tree and expose it as `_replicat_adapters`.

No pybind11 headers exist on this image, so the extension is compiled against a small shim
header (native/shim) and reached through ctypes.  Two builds, cached by content hash under
.build/: 'plain' (-O2, the flags of CMakeLists.txt) and 'asan' (clang ASan+UBSan, loaded into
a Python started with LD_PRELOAD=libclang_rt.asan).
"""
import ctypes
import hashlib
import mmap
import os
import subprocess
import sys
import types
from pathlib import Path

from .paths import BUILD, REPO, VERIF

SHIM = VERIF / 'native' / 'shim'
BRIDGE = VERIF / 'native' / 'bridge.cpp'

FLAGS = {
    'plain': ['g++', '-O2', '-fstrict-aliasing', '-mpclmul', '-msse2', '-msse4.1', '-std=c++17',
              '-fPIC', '-shared'],
    'asan': ['clang++-14', '-O1', '-g', '-fno-omit-frame-pointer',
             '-fsanitize=address,undefined', '-fno-sanitize-recover=all', '-shared-libasan',
             '-mpclmul', '-msse2', '-msse4.1', '-std=c++17', '-fPIC', '-shared'],
}


class BuildError(Exception):
    pass


def source_path():
    return REPO / 'src' / 'adapters.cpp'


def _content_hash(kind):
    h = hashlib.sha256()
    for p in (source_path(), BRIDGE, SHIM / 'pybind11' / 'pybind11.h'):
        h.update(p.read_bytes())
        h.update(b'\0')
    h.update(' '.join(FLAGS[kind]).encode())
    return h.hexdigest()[:20]


def build(kind='plain'):
    """Return the path of the shared object for the working tree's source, building it
    if this exact source has not been built yet."""
    sha = _content_hash(kind)
    out = BUILD / sha / f'libvfad_{kind}.so'
    if out.exists():
        return out
    out.parent.mkdir(parents=True, exist_ok=True)
    tmp = out.with_suffix(f'.{os.getpid()}.tmp')
    cmd = FLAGS[kind] + [f'-I{SHIM}', f'-DVF_ADAPTERS_SOURCE="{source_path()}"', str(BRIDGE),
                         '-o', str(tmp)]
    proc = subprocess.run(cmd, capture_output=True, text=True)
    if proc.returncode != 0:
        raise BuildError(f'{" ".join(cmd)}\n{proc.stderr[-4000:]}')
    os.replace(tmp, out)
    return out


def asan_runtime():
    out = subprocess.run(['clang++-14', '-print-file-name=libclang_rt.asan-x86_64.so'],
                         capture_output=True, text=True).stdout.strip()
    if not out or not os.path.exists(out):
        raise BuildError('ASan runtime not found')
    return out


def asan_env(log_path=None, halt=True):
    env = dict(os.environ)
    env['LD_PRELOAD'] = asan_runtime()
    opts = ['detect_leaks=0', 'abort_on_error=0', f'halt_on_error={1 if halt else 0}',
            'allocator_may_return_null=1', 'exitcode=66']
    if log_path:
        opts.append(f'log_path={log_path}')
    env['ASAN_OPTIONS'] = ':'.join(opts)
    env['UBSAN_OPTIONS'] = 'print_stacktrace=1:halt_on_error=1:exitcode=66'
    return env


# --------------------------------------------------------------------------------------------

class GuardBuffer:
    """A buffer whose last byte is immediately followed by a PROT_NONE page."""

    def __init__(self, capacity):
        self.page = mmap.PAGESIZE
        self.npages = (capacity + self.page - 1) // self.page + 1
        self.map = mmap.mmap(-1, (self.npages + 1) * self.page)
        self.base = ctypes.addressof(ctypes.c_char.from_buffer(self.map))
        libc = ctypes.CDLL(None, use_errno=True)
        libc.mprotect.argtypes = [ctypes.c_void_p, ctypes.c_size_t, ctypes.c_int]
        rc = libc.mprotect(self.base + self.npages * self.page, self.page, 0)
        if rc != 0:
            raise OSError(ctypes.get_errno(), 'mprotect failed')
        self.capacity = self.npages * self.page

    def place(self, data):
        """Copy data so that it ends exactly at the guard page; return its address."""
        n = len(data)
        if n > self.capacity:
            raise ValueError('too large')
        addr = self.base + self.capacity - n
        if n:
            ctypes.memmove(addr, bytes(data) if not isinstance(data, bytes) else data, n)
        return addr


class Bridge:
    """ctypes face of one build."""

    def __init__(self, kind='plain'):
        self.kind = kind
        self.lib = ctypes.CDLL(str(build(kind)))
        L = self.lib
        L.vf_new.restype = ctypes.c_void_p
        L.vf_new.argtypes = [ctypes.c_size_t, ctypes.c_size_t, ctypes.c_char_p, ctypes.c_ssize_t,
                             ctypes.c_char_p]
        for fn in (L.vf_next_cut, L.vf_next_cut_exact):
            fn.restype = ctypes.c_size_t
            fn.argtypes = [ctypes.c_void_p, ctypes.c_void_p, ctypes.c_ssize_t, ctypes.c_int]
        L.vf_min.restype = L.vf_max.restype = ctypes.c_size_t
        L.vf_min.argtypes = L.vf_max.argtypes = [ctypes.c_void_p]
        L.vf_free.argtypes = [ctypes.c_void_p]
        self.calls = 0           # next_cut calls made through this bridge
        self.mode = 'direct'     # direct | exact | guard | poison
        self.poison = b'\x00'
        self._guard = None

    # -- module factory ---------------------------------------------------------------------
    def chunker_class(self):
        bridge = self

        class _gclmulchunker:
            def __init__(self, min_length, max_length, key):
                if min_length < 0 or max_length < 0:
                    raise TypeError('incompatible constructor arguments')
                kb = bytes(memoryview(key))
                err = ctypes.create_string_buffer(256)
                self._h = bridge.lib.vf_new(int(min_length), int(max_length), kb, len(kb), err)
                if not self._h:
                    raise ValueError(err.value.decode('utf-8', 'replace'))

            @property
            def min_length(self):
                return bridge.lib.vf_min(self._h)

            @property
            def max_length(self):
                return bridge.lib.vf_max(self._h)

            def next_cut(self, buffer, final):
                return bridge.next_cut(self._h, buffer, final)

            def __del__(self):
                h, self._h = getattr(self, '_h', None), None
                if h:
                    bridge.lib.vf_free(h)

        return _gclmulchunker

    def next_cut(self, handle, buffer, final):
        self.calls += 1
        n = len(buffer)
        mode = self.mode
        if mode == 'guard':
            if self._guard is None or self._guard.capacity < n:
                self._guard = GuardBuffer(max(n, 1 << 16))
            addr = self._guard.place(buffer)
            return self.lib.vf_next_cut(handle, addr, n, 1 if final else 0)
        if mode == 'poison':
            tail = (self.poison * (64 // len(self.poison) + 1))[:64]
            blob = bytes(buffer) + tail
            return self.lib.vf_next_cut(handle, blob, n, 1 if final else 0)
        fn = self.lib.vf_next_cut_exact if mode == 'exact' else self.lib.vf_next_cut
        if isinstance(buffer, bytes):
            return fn(handle, buffer, n, 1 if final else 0)
        if isinstance(buffer, bytearray):
            if n == 0:
                return fn(handle, b'', 0, 1 if final else 0)
            view = (ctypes.c_char * n).from_buffer(buffer)
            try:
                return fn(handle, ctypes.addressof(view), n, 1 if final else 0)
            finally:
                del view
        data = bytes(memoryview(buffer))
        return fn(handle, data, n, 1 if final else 0)


_installed = None


def install(kind='plain', mode='direct'):
    """Make `import _replicat_adapters` resolve to the freshly compiled source.  Must run
    before `replicat.utils.adapters` is imported."""
    global _installed
    if _installed is not None:
        _installed.mode = mode
        return _installed
    if 'replicat.utils.adapters' in sys.modules:
        raise RuntimeError('replicat.utils.adapters imported before the bridge was installed')
    bridge = Bridge(kind)
    bridge.mode = mode
    mod = types.ModuleType('_replicat_adapters')
    mod._gclmulchunker = bridge.chunker_class()
    mod.__vf_bridge__ = bridge
    sys.modules['_replicat_adapters'] = mod
    _installed = bridge
    return bridge


def installed_extension():
    """Import the prebuilt extension artefact (if any) under a private name."""
    import importlib.machinery
    import importlib.util
    for p in sorted(Path(REPO).glob('_replicat_adapters*.so')):
        loader = importlib.machinery.ExtensionFileLoader('_replicat_adapters', str(p))
        spec = importlib.util.spec_from_loader('_replicat_adapters', loader)
        mod = importlib.util.module_from_spec(spec)
        try:
            loader.exec_module(mod)
        except Exception:
            continue
        return mod
    return None
