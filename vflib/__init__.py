"""Runtime-monitoring machinery for vaultah/replicat (see /verif/DESIGN.md)."""
