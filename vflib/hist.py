"""History engine shared by C02, C06, C07, C08 (and C15/C18): a world of users whose keys are
related as owner / shared / clone / independent over one instrumented Store, ground truth kept
by the harness, online monitors at the store boundary and audits via the independent reader.

Every finding carries the property it refutes ('prop') so that each check reports its own.
"""
import asyncio
import os
import random
import re
import shutil
import tempfile
from pathlib import Path

from . import membackend, paths, refimpl, rep


class User:
    def __init__(self, name, key, password, family, kind, parent=None):
        self.name, self.key, self.password = name, key, password
        self.family, self.kind, self.parent = family, kind, parent
        self.ref = None


class SnapRecord:
    def __init__(self, name, location, user, files, timestamp, note, digests):
        self.name, self.location, self.user = name, location, user
        self.files = files              # recorded path -> bytes
        self.timestamp, self.note = timestamp, note
        self.digests = digests          # chunk table (list of digests)
        self.mtimes = {}


def make_pool(r, mn, mx, n=19):
    """File contents with heavy overlap: identical files, shared prefixes/suffixes (aligned
    and unaligned), a block repeated inside one file, zeros, empty."""
    base = [r.randbytes(r.choice([mx // 2, mx, 3 * mx + 1, 7 * mx + 3, 12 * mx])) for _ in range(4)]
    blk = r.randbytes(2 * mx)
    pool = [
        base[0], base[1], base[2], base[3],
        base[0],                                              # identical file
        base[1] + r.randbytes(mx + 5),                        # shared prefix
        r.randbytes(4 * ((mx + 3) // 4)) + base[2],           # shared suffix, aligned shift
        r.randbytes(mx + 1) + base[2],                        # shared suffix, unaligned shift
        blk * 5,                                              # block repeated inside one file
        base[3][:len(base[3]) // 2] + blk + base[3][len(base[3]) // 2:],
        bytes(5 * mx + 2),                                    # zeros
        b'',
        r.randbytes(3),
        blk + base[0] + blk,
        r.randbytes(5), r.randbytes(5), r.randbytes(5),       # equal sizes, different contents, bundled into one chunk
        r.randbytes(mx // 2 + 1), r.randbytes(mx // 2 + 1),
    ]
    while len(pool) < n:
        pool.append(r.randbytes(r.randrange(1, 9 * mx)))
    return pool[:n]


class World:
    def __init__(self, seed, settings, flavour='sync', concurrent=3, graph=None, scratch=None,
                 latency=True, cache=None, reuse_repos=False):
        self.r = random.Random(seed)
        self.seed = seed
        self.settings = settings
        self.flavour = flavour
        self.concurrent = concurrent
        self.store = membackend.Store(seed)
        if latency:
            self.store.latency = membackend.random_latency(seed, scale=0.0015)
        self.store.on_mutation = self._on_mutation
        self.scratch = scratch or tempfile.mkdtemp(prefix='vf-hist-', dir=paths.scratch_root())
        self.users = {}
        self.snaps = {}                 # name -> SnapRecord (ground truth of remaining snapshots)
        self.deleted = {}
        self.findings = []              # [{'prop','what','witness'}]
        self.counters = {}
        self.live_tables = {}           # snapshot location -> set(chunk locations) (online)
        self.snap_family = {}
        self.pending_overwrites = []
        self.encrypted = settings.get('encryption') is not None
        self.graph = graph or ['owner']
        self.clock = rep.Clock().install()
        self.cache = cache
        self.foreign = {}
        self.ops_log = []
        self.quiet_monitor = False      # set while the harness itself plants objects
        self.reuse_repos = reuse_repos
        self._repos = {}

    def close(self):
        self.clock.uninstall()
        shutil.rmtree(self.scratch, ignore_errors=True)

    def count(self, k, n=1):
        self.counters[k] = self.counters.get(k, 0) + n

    def finding(self, prop, what, **witness):
        witness.setdefault('ops', self.ops_log[-12:])
        self.findings.append({'prop': prop, 'what': what, 'witness': witness})

    # -- key graph ------------------------------------------------------------------------------
    def backend(self, user):
        return membackend.make_backend(self.store, self.flavour, actor=user)

    async def setup(self):
        """graph: list of kinds; element i>0 is ('shared'|'clone', parent_index) or 'independent'."""
        _, key, cap = await rep.init(self.backend('u0'), self.settings, password=b'pw-u0')
        self.init_output = cap
        self.users['u0'] = User('u0', key, b'pw-u0', 'f0', 'owner')
        if not self.encrypted:
            for i, g in enumerate(self.graph[1:], 1):
                self.users[f'u{i}'] = User(f'u{i}', None, None, 'f0', 'same')
        else:
            nfam = 1
            for i, g in enumerate(self.graph[1:], 1):
                name = f'u{i}'
                if g == 'independent':
                    key_i, _ = await rep.add_key(self.backend(name), None, None, f'pw-{name}'.encode(),
                                                 shared=False, settings=self._kdf_settings())
                    self.users[name] = User(name, key_i, f'pw-{name}'.encode(), f'f{nfam}', 'independent')
                    nfam += 1
                else:
                    kind, pidx = g
                    parent = self.users[f'u{pidx}']
                    if kind == 'clone':
                        key_i, _ = await rep.add_key(self.backend(name), parent.key, parent.password, None,
                                                     shared=True, clone=True, settings=self._kdf_settings())
                        pw = parent.password
                    else:
                        pw = f'pw-{name}'.encode()
                        key_i, _ = await rep.add_key(self.backend(name), parent.key, parent.password, pw,
                                                     shared=True, settings=self._kdf_settings())
                    self.users[name] = User(name, key_i, pw, parent.family, kind, parent.name)
        cfg = self.store.objects['config']
        for u in self.users.values():
            u.ref = refimpl.Ref(cfg, u.key, u.password)
        self.config_bytes = cfg
        return self

    def _kdf_settings(self):
        r = self.r
        return {'encryption': {'kdf': r.choice([{'name': 'scrypt', 'n': 4}, {'name': 'scrypt', 'n': 8, 'r': 2},
                                                {'name': 'blake2b'}, {'name': 'scrypt', 'n': 4, 'p': 2}])}}

    def family_ref(self, family):
        for u in self.users.values():
            if u.family == family:
                return u.ref

    def families(self):
        return sorted({u.family for u in self.users.values()})

    def family_of_location(self, loc):
        for fam in self.families():
            ref = self.family_ref(fam)
            try:
                if loc.startswith('data/') and ref.owns_chunk_location(loc):
                    return fam
                if loc.startswith('snapshots/') and ref.owns_snapshot_location(loc):
                    return fam
            except refimpl.FormatError:
                return None
        return None

    def plant_foreign(self):
        """Objects outside the chunk and snapshot areas that no command may touch."""
        self.quiet_monitor = True
        for name, data in (('misc/x', b'foreign object'), ('data-old/y', b'looks similar'),
                           ('snapshots-bak/aa/zz-1', b'nope'), ('datax', b'prefix trap')):
            self.store.apply('upload', name, data, 'harness')
            self.foreign[name] = data
        self.quiet_monitor = False

    # -- online monitors (run under the store lock, at the instant a mutation takes effect) ------
    def _on_mutation(self, store, op, name, old, new, actor):
        if self.quiet_monitor:
            return
        self.count('mutations_monitored')
        actor_family = self.users[actor].family if actor in self.users else None
        if name.startswith('snapshots/'):
            if op == 'delete':
                self.live_tables.pop(name, None)
                fam = self.snap_family.pop(name, None)
                if fam is not None and actor_family is not None and fam != actor_family:
                    self.finding('C06', f'user {actor} deleted a snapshot object of another key family', name=name)
                rec = next((s for s in self.snaps.values() if s.location == name), None)
                if self.encrypted and rec is not None and rec.user != actor and old is not None:
                    self.finding('C06', f'user {actor} deleted snapshot {rec.name[:12]} made under the key of {rec.user}',
                                 name=name)
            else:
                fam = self.family_of_location(name)
                self.snap_family[name] = fam
                try:
                    dec = self.family_ref(fam).decode_snapshot(name, new) if fam else None
                    self.live_tables[name] = ({self.family_ref(fam).chunk_loc(d) for d in dec['chunks']}
                                              if dec else set())
                except refimpl.FormatError as e:
                    self.finding('C14', f'snapshot object undecodable at upload: {e}', name=name)
                    self.live_tables[name] = set()
        elif name.startswith('data/'):
            fam = self.family_of_location(name)
            if op == 'delete':
                self.count('chunk_deletes_checked')
                if old is not None:
                    referenced = set().union(*self.live_tables.values()) if self.live_tables else set()
                    if name in referenced:
                        holders = [k[:30] for k, v in self.live_tables.items() if name in v][:3]
                        self.finding('C02', 'a chunk still referenced by a remaining snapshot was deleted',
                                     chunk=name, actor=actor, referenced_by=holders)
                        owners = {s.user for s in self.snaps.values()
                                  if s.location in self.live_tables and name in self.live_tables[s.location]}
                        if owners and actor not in owners and self.encrypted:
                            self.finding('C06', f'user {actor} caused the removal of a chunk referenced only by snapshots of '
                                                f'{sorted(owners)}', chunk=name)
                    if fam is not None and actor_family is not None and fam != actor_family:
                        self.finding('C06', f'user {actor} ({actor_family}) deleted a chunk of key family {fam}', chunk=name)
                        self.finding('C08', f'a chunk of another key family was deleted by {actor}', chunk=name)
            else:
                self.count('chunk_uploads_checked')
                if old is not None:
                    self.pending_overwrites.append((name, old, new))
                if fam is not None and actor_family is not None and fam != actor_family:
                    self.finding('C07', f'user {actor} wrote into a chunk location of family {fam}', chunk=name)
        else:
            if old is not None or op == 'delete':
                self.finding('C08', f'object outside the chunk and snapshot areas was modified: {op} {name}', actor=actor)

    # -- operations -----------------------------------------------------------------------------------
    def srcdir(self, user):
        return os.path.join(self.scratch, f'src-{user}')

    def write_fileset(self, user, fileset):
        """fileset: {relative path: bytes}.  Returns {recorded absolute path: bytes}."""
        d = self.srcdir(user)
        shutil.rmtree(d, ignore_errors=True)
        os.makedirs(d)
        out = {}
        for rel, data in fileset.items():
            p = os.path.join(d, rel)
            os.makedirs(os.path.dirname(p), exist_ok=True)
            with open(p, 'wb') as f:
                f.write(data)
            out[os.path.realpath(p)] = data
        return out

    async def repo(self, user, concurrent=None, fresh=False):
        """A Repository for this user: a new object per command (CLI use) or, with reuse_repos, one
        long-lived object per user (library use)."""
        u = self.users[user]
        if self.reuse_repos and not fresh and user in self._repos:
            return self._repos[user]
        cache = self.cache
        if cache == 'per-user':
            cache = os.path.join(self.scratch, f'cache-{user}')
        elif cache == 'shared':
            cache = os.path.join(self.scratch, 'cache-shared')
        repo = await rep.unlocked(self.backend(user), u.key, u.password,
                                  concurrent=concurrent or self.concurrent, cache=cache)
        if self.reuse_repos and not fresh:
            self._repos[user] = repo
        return repo

    async def faulty_gc(self, user, what, names=None):
        """clean / delete during which ONE download of a snapshot object returns short or garbled bytes
        (transient read fault).  The command may fail; it must not damage anything."""
        state = {'left': 1}
        mode = self.r.choice(['half', 'empty', 'flip', 'minus1'])

        def garble(name, data):
            if not name.startswith('snapshots/') or state['left'] <= 0 or not data:
                return data
            state['left'] -= 1
            if mode == 'half':
                return data[:len(data) // 2]
            if mode == 'empty':
                return b''
            if mode == 'minus1':
                return data[:-1]
            b = bytearray(data)
            b[self.r.randrange(len(b))] ^= 0x10
            return bytes(b)
        repo = await self.repo(user, fresh=True)
        self.store.garble = garble
        failed = False
        try:
            with rep.capture():
                if what == 'clean':
                    await repo.clean()
                else:
                    await repo.delete_snapshots(list(names), confirm=False)
        except Exception:
            failed = True
        finally:
            self.store.garble = None
        await self.drain()
        for n in list(names or []):
            if n in self.snaps and self.snaps[n].location not in self.store.objects:
                self.deleted[n] = self.snaps.pop(n)
        self.ops_log.append((f'faulty-{what}', user, mode, failed, state['left']))
        if state['left'] == 0:
            self.count('gc_with_garbled_snapshot_read')
        return failed

    async def snapshot(self, user, fileset, note=None, capture=True, fresh=False, repo=None, shuffle_args=None,
                       rate_limit=None, concurrent=None):
        """repo: use this (already unlocked) Repository object instead of the user's own.
        shuffle_args: a Random -> the files are passed as individual path arguments in a shuffled order."""
        truth = self.write_fileset(user, fileset)
        if repo is None:
            repo = await self.repo(user, fresh=fresh or concurrent is not None, concurrent=concurrent)
        before_calls = len(self.store.log)
        args = [Path(self.srcdir(user))]
        if shuffle_args is not None:
            args = [Path(p) for p in truth]
            shuffle_args.shuffle(args)
        if capture:
            with rep.capture():
                res = await repo.snapshot(paths=args, note=note, rate_limit=rate_limit)
        else:
            res = await repo.snapshot(paths=args, note=note, rate_limit=rate_limit)
        rec = SnapRecord(res.name, res.location, user, truth, res.data['utc_timestamp'], note, list(res.chunks))
        self.snaps[res.name] = rec
        self.ops_log.append(('snapshot', user, res.name[:10], len(fileset)))
        self.count('snapshots')
        rec.events = self.store.log[before_calls:]
        return rec

    async def delete(self, user, names, fresh=False):
        repo = await self.repo(user, fresh=fresh)
        self.ops_log.append(('delete', user, [n[:10] for n in names]))
        with rep.capture():
            await repo.delete_snapshots(list(names), confirm=False)
        for n in names:
            self.deleted[n] = self.snaps.pop(n)
        self.count('deletes')

    async def clean(self, user, fresh=False):
        repo = await self.repo(user, fresh=fresh)
        self.ops_log.append(('clean', user))
        with rep.capture():
            await repo.clean()
        self.count('cleans')

    async def restore(self, user, snapshot_regex=None, file_regex=None):
        repo = await self.repo(user)
        target = tempfile.mkdtemp(prefix='restore-', dir=self.scratch)
        with rep.capture():
            res = await repo.restore(snapshot_regex=snapshot_regex, file_regex=file_regex, path=Path(target))
        from . import gen
        got = {'/' + k: v[0] for k, v in gen.walk_tree(target).items()}
        shutil.rmtree(target, ignore_errors=True)
        return res, got

    async def restore_check(self, name, prop='C02'):
        """Restore one remaining snapshot with its owner's key; must equal what was captured."""
        rec = self.snaps[name]
        try:
            res, got = await self.restore(rec.user, snapshot_regex=f'^{name}$')
        except Exception as e:
            self.finding(prop, f'restore of a remaining snapshot failed: {type(e).__name__}: {e}', snapshot=name[:16],
                         owner=rec.user)
            return
        self.count('snapshots_restored')
        if got != rec.files:
            bad = [p for p in set(got) | set(rec.files) if got.get(p) != rec.files.get(p)][:4]
            self.finding(prop, 'restore of a remaining snapshot differs from the captured contents',
                         snapshot=name[:16], owner=rec.user, paths=bad)

    # -- interrupted commands (orphan-carrying states for C08) ------------------------------------------
    async def drain(self):
        """Wait for tasks a failed gather() left running, so that no destructive work overlaps the
        next command (the README declares that unsupported)."""
        for _ in range(50):
            pending = [t for t in asyncio.all_tasks() if t is not asyncio.current_task() and not t.done()]
            if not pending and self.store.in_flight == 0:
                return
            if pending:
                await asyncio.gather(*pending, return_exceptions=True)
            else:
                await asyncio.sleep(0.005)

    async def snapshot_interrupted(self, user, fileset, mode='no-snapshot-object'):
        """A snapshot that fails for good: either the snapshot object upload fails (all chunks are
        orphans) or the k-th chunk upload fails."""
        self.write_fileset(user, fileset)
        repo = await self.repo(user)
        if mode == 'no-snapshot-object':
            plan = {'op': 'upload', 'prefix': 'snapshots/', 'count': None}
        else:
            plan = {'op': 'upload_stream', 'prefix': 'data/', 'nth': self.r.randrange(1, 6), 'count': None}
        self.store.faults = [plan]
        failed = False
        try:
            with rep.capture():
                await repo.snapshot(paths=[Path(self.srcdir(user))])
        except Exception:
            failed = True
        finally:
            self.store.faults = []
        await self.drain()
        self.ops_log.append(('snapshot-interrupted', user, mode, failed))
        if failed:
            self.count('interrupted_snapshots')
        else:
            # the fault never fired (fewer uploads than nth): a regular snapshot happened
            loc = [e['name'] for e in self.store.log[-3:] if e['op'] == 'upload' and e['name'].startswith('snapshots/')]
            self.count('interrupted_snapshot_completed_anyway')
            self.unknown_snapshots = True
        return failed

    async def delete_interrupted(self, user, names):
        repo = await self.repo(user)
        self.store.faults = [{'op': 'delete', 'prefix': 'data/', 'nth': self.r.randrange(0, 4), 'count': None}]
        failed = False
        try:
            with rep.capture():
                await repo.delete_snapshots(list(names), confirm=False)
        except Exception:
            failed = True
        finally:
            self.store.faults = []
        await self.drain()
        for n in names:
            if self.snaps[n].location not in self.store.objects:
                self.deleted[n] = self.snaps.pop(n)
        self.ops_log.append(('delete-interrupted', user, [n[:10] for n in names], failed))
        if failed:
            self.count('interrupted_deletes')
        return failed

    # -- listings / unlock (C06) -----------------------------------------------------------------------
    async def list_snapshots(self, user, **kw):
        repo = await self.repo(user)
        with rep.capture() as cap:
            await repo.list_snapshots(**kw)
        return cap.stdout

    async def list_files(self, user, **kw):
        repo = await self.repo(user)
        with rep.capture() as cap:
            await repo.list_files(**kw)
        return cap.stdout

    async def try_unlock(self, key, password):
        repo = rep.new_repo(self.backend('prober'), 2)
        try:
            with rep.capture():
                await repo.unlock(password=password, key=key)
            return True, None
        except Exception as e:
            return False, e

    # -- audits via the independent reader ----------------------------------------------------------
    def referenced_by_family(self, objects=None):
        """{family: set(chunk locations referenced by snapshot objects of that family)}"""
        objects = objects if objects is not None else self.store.snapshot_objects()
        out = {}
        for fam in self.families():
            ref = self.family_ref(fam)
            try:
                locs, _ = refimpl.referenced_locations(ref, objects)
            except refimpl.FormatError as e:
                self.finding('C14', f'reference reader cannot decode a snapshot object: {e}')
                locs = set()
            out[fam] = locs
        return out

    def audit_integrity(self, prop='C02'):
        """Every remaining snapshot (ground truth) is present, decodes with its owner's key, every
        referenced chunk exists/authenticates/hashes, and the reference restore equals the capture."""
        objects = self.store.snapshot_objects()
        for name, rec in self.snaps.items():
            ref = self.users[rec.user].ref
            self.count('snapshots_audited')
            blob = objects.get(rec.location)
            if blob is None:
                self.finding(prop, 'a snapshot that was never deleted is gone', snapshot=name[:16])
                continue
            try:
                dec = ref.decode_snapshot(rec.location, blob)
                if dec['data'] is None:
                    self.finding(prop, 'snapshot data no longer decrypts under its owner key', snapshot=name[:16])
                    continue
                for f in dec['data']['files']:
                    got = ref.restore_file(f, dec['chunks'], objects.__getitem__)
                    self.count('files_ref_restored')
                    if got != rec.files.get(f['path']):
                        self.finding(prop, 'reference restore of a remaining snapshot differs from the captured contents',
                                     snapshot=name[:16], path=f['path'])
                        break
            except KeyError as e:
                self.finding(prop, 'a chunk referenced by a remaining snapshot is missing', snapshot=name[:16],
                             chunk=str(e))
            except refimpl.FormatError as e:
                self.finding(prop, f'remaining snapshot no longer decodes: {type(e).__name__}: {e}', snapshot=name[:16])

    def resolve_overwrites(self):
        """Uploads that replaced an existing chunk object must carry the same plaintext."""
        if not self.pending_overwrites:
            return
        digests = {}
        for rec in list(self.snaps.values()) + list(self.deleted.values()):
            ref = self.users[rec.user].ref
            for d in rec.digests:
                digests[ref.chunk_loc(d)] = (d, ref)
        for name, old, new in self.pending_overwrites:
            self.count('overwrites_checked')
            if name not in digests:
                continue
            d, ref = digests[name]
            try:
                a, b = ref.decode_chunk(old, d), ref.decode_chunk(new, d)
            except refimpl.FormatError as e:
                self.finding('C02', f'chunk object overwritten with bytes that do not authenticate: {e}', chunk=name)
                continue
            if a != b:
                self.finding('C02', 'chunk object overwritten with different plaintext', chunk=name)
        self.pending_overwrites = []

    def audit_chunk_sets(self, prop, families=None, exact=True):
        """Set equality between the chunk objects of a family and the chunks referenced by its
        remaining snapshot objects (C07 after crash-free operations; C08 after clean)."""
        objects = self.store.snapshot_objects()
        refd = self.referenced_by_family(objects)
        data_objs = [n for n in objects if n.startswith('data/')]
        by_family = {}
        for n in data_objs:
            by_family.setdefault(self.family_of_location(n), set()).add(n)
        for fam in families or self.families():
            have, want = by_family.get(fam, set()), refd.get(fam, set())
            self.count('chunk_set_audits')
            if want - have:
                self.finding('C02', 'referenced chunk objects are missing', family=fam, missing=sorted(want - have)[:3])
            if exact and have - want:
                self.finding(prop, f'{len(have - want)} chunk object(s) of family {fam} are not referenced by any remaining snapshot',
                             family=fam, orphans=sorted(have - want)[:3])
        if None in by_family:
            self.finding('C14', 'chunk object whose ownership tag verifies under no key', names=sorted(by_family[None])[:3])
        return by_family, refd

    def audit_foreign(self, prop='C08'):
        objects = self.store.objects
        for n, data in self.foreign.items():
            self.count('foreign_objects_watched')
            if objects.get(n) != data:
                self.finding(prop, f'object outside the chunk/snapshot areas changed: {n}')
        if objects.get('config') != self.config_bytes:
            self.finding(prop, 'config object changed')

    def take_findings(self, props=None):
        out = [f for f in self.findings if props is None or f['prop'] in props]
        return out


def gen_graph(r, encrypted, n=None):
    if not encrypted:
        return ['owner'] + ['same'] * r.choice([0, 1, 2])
    n = n or r.choice([2, 3, 4, 5])
    g = ['owner']
    for i in range(1, n):
        k = r.choice(['shared', 'shared', 'independent', 'clone', 'shared-of-prev'])
        if k == 'independent':
            g.append('independent')
        elif k == 'clone':
            g.append(('clone', r.randrange(i)))
        elif k == 'shared-of-prev':
            g.append(('shared', i - 1))
        else:
            g.append(('shared', r.randrange(i)))
    return g


def graph_class(g):
    out = []
    for x in g[1:]:
        out.append(x if isinstance(x, str) else x[0])
    return '+'.join(sorted(out)) or 'single'


def gen_fileset(r, pool, nmax=6):
    names = ['a', 'b', 'dir/c', 'dir/d', 'dir/sub/e', 'f.bin', 'g h', 'dir/é']
    k = r.randint(1, nmax)
    return {nm: pool[r.randrange(len(pool))] for nm in r.sample(names, min(k, len(names)))}


# ---------------------------------------------------------------------------------------------------
# history runner (C02 / C07 / C08 share it; each check chooses the op mix and which audits count)

async def run_history(world, nops, mix, audits, r, restore_every=4, sequential_repeat=False):
    """mix: weights for 'snap', 'del', 'clean', 'group', 'repeat'.  audits: set of
    {'integrity','sets','foreign','restore'}."""
    mn = world.settings['chunking']['min_length']
    mx = world.settings['chunking']['max_length']
    pool = make_pool(r, mn, mx)
    users = sorted(world.users)
    ops = [k for k, w in mix.items() for _ in range(w)]
    last_fileset = {}
    for step in range(nops):
        op = r.choice(ops)
        if not world.snaps and op in ('del',):
            op = 'snap'
        if op == 'snap':
            u = r.choice(users)
            fs = gen_fileset(r, pool)
            rec = await world.snapshot(u, fs, note=r.choice([None, 'note ' + str(step)]))
            last_fileset[u] = (fs, rec.name)
        elif op == 'repeat':
            # unchanged data again: same user or a user of the same family
            cands = [x for x in sorted(last_fileset) if last_fileset[x][1] in world.snaps]
            if not cands:
                continue
            u0 = r.choice(cands)
            fam = world.users[u0].family
            u = r.choice([x for x in users if world.users[x].family == fam])
            # a shared-key user only reuses chunks; paths differ per user dir, content is the same
            before = len(world.store.log)
            # unchanged data, possibly handed over as individual arguments in another order
            # ... and with other transfer options than the first time (they must not influence what is stored)
            rec = await world.snapshot(u, last_fileset[u0][0], shuffle_args=r if r.random() < 0.5 else None,
                                       rate_limit=r.choice([None, None, 20_000, 400_000]),
                                       concurrent=r.choice([None, 1, 2, 5]))
            events = world.store.log[before:]
            payload = [e for e in events if e['op'] in ('upload_stream',) or
                       (e['op'] == 'upload' and e['name'].startswith('data/'))]
            world.count('repeat_snapshots')
            if u != u0:
                world.count('repeat_by_shared_user')
            if payload:
                world.finding('C07', f'snapshot of unchanged data transferred {len(payload)} chunk payload(s)',
                              by=u, original=u0, events=[(e['op'], e['name'][:40], e['n']) for e in payload[:4]])
            last_fileset[u] = (last_fileset[u0][0], rec.name)
        elif op == 'del':
            u = r.choice(users)
            own = [n for n, s in world.snaps.items() if s.user == u or not world.encrypted]
            if not own:
                continue
            names = r.sample(own, r.randint(1, min(3, len(own))))
            shared_with_survivor = False
            deleted_locs = set()
            for n in names:
                ref = world.users[world.snaps[n].user].ref
                deleted_locs |= {ref.chunk_loc(d) for d in world.snaps[n].digests}
            for n2, s2 in world.snaps.items():
                if n2 not in names:
                    ref2 = world.users[s2.user].ref
                    if deleted_locs & {ref2.chunk_loc(d) for d in s2.digests}:
                        shared_with_survivor = True
            await world.delete(u, names)
            if shared_with_survivor:
                world.count('deletes_sharing_chunks_with_survivor')
        elif op == 'clean':
            await world.clean(r.choice(users))
        elif op == 'churn':
            # data stored through a long-lived object, removed through ANOTHER object of the same user
            # (a second process), then stored again through the first one
            u = r.choice(users)
            fs = gen_fileset(r, pool)
            rec = await world.snapshot(u, fs)
            await world.delete(u, [rec.name], fresh=True)
            if r.random() < 0.5:
                await world.clean(r.choice(users), fresh=True)
            await world.snapshot(u, fs)
            world.count('churn_sequences')
        elif op == 'gclean':
            await world.faulty_gc(r.choice(users), 'clean')
        elif op == 'gdel':
            u = r.choice(users)
            own = [n for n, s in world.snaps.items() if s.user == u or not world.encrypted]
            if own:
                await world.faulty_gc(u, 'delete', r.sample(own, 1))
        elif op == 'group':
            k = r.randint(2, 4)
            members = r.sample(users, min(k, len(users)))
            coros = []
            for u in members:
                fs = gen_fileset(r, pool)
                last_fileset.pop(u, None)
                coros.append(world.snapshot(u, fs, capture=False, fresh=True))
            if world.snaps:
                reader = r.choice(users)
                coros.append(_quiet_restore(world, reader))
            with rep.capture():
                results = await asyncio.gather(*coros, return_exceptions=True)
            world.count('concurrent_groups')
            for res in results:
                if isinstance(res, Exception):
                    world.finding('C02', f'non-destructive command failed while overlapping with others: '
                                         f'{type(res).__name__}: {res}')
        # -- audits ------------------------------------------------------------------------------
        world.resolve_overwrites()
        if 'integrity' in audits:
            world.audit_integrity()
        if 'sets' in audits:
            world.audit_chunk_sets('C07')
        if 'foreign' in audits:
            world.audit_foreign()
        if 'restore' in audits and world.snaps and (step % restore_every == restore_every - 1 or step == nops - 1):
            await world.restore_check(r.choice(sorted(world.snaps)))
        if len(world.findings) > 6:
            break


async def _quiet_restore(world, user):
    repo = await world.repo(user, fresh=True)
    target = tempfile.mkdtemp(prefix='grp-restore-', dir=world.scratch)
    try:
        return await repo.restore(path=Path(target))
    finally:
        shutil.rmtree(target, ignore_errors=True)
