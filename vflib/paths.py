import os
from pathlib import Path

VERIF = Path(os.environ.get('VERIF_HOME') or Path(__file__).resolve().parent.parent)
REPO = Path(os.environ.get('VERIF_REPO', '/repo'))
BUILD = VERIF / '.build'
EVIDENCE = VERIF / 'evidence'
REPLAYS = VERIF / 'replays'
KNOWN_FINDINGS = VERIF / 'known_findings.json'
PYTHON = os.environ.get('VERIF_PYTHON', '/venv/bin/python')


def scratch_root():
    """Directory for per-case scratch trees (removed by the case itself)."""
    for cand in (os.environ.get('VERIF_SCRATCH'), '/dev/shm', os.environ.get('TMPDIR'), '/tmp'):
        if cand and os.path.isdir(cand) and os.access(cand, os.W_OK):
            return cand
    return '/tmp'
