"""Generators: repository settings, file trees (described as data, materialised by the
harness so that the oracle never asks replicat what the tree is), names, size classes."""
import os
import random

ALIGN = 4
PIECE = 16_777_216

CHUNKERS = [(1, 4), (4, 4), (5, 10), (8, 64), (4, 64), (16, 257), (500, 10000), (12, 12),
            (3, 9), (64, 1024)]
COARSE_CHUNKER = (65536, 1048576)

HASHERS = ([{'name': 'blake2b', 'length': n} for n in (16, 32, 64)]
           + [{'name': 'sha2', 'bits': b} for b in (224, 256, 384, 512)]
           + [{'name': 'sha3', 'bits': b} for b in (224, 256, 384, 512)])
CIPHERS = ([{'name': 'aes_gcm', 'key_bits': b} for b in (128, 192, 256)]
           + [{'name': 'chacha20_poly1305'}])


def gen_settings(rng, encrypted=None, chunker=None, fast_kdf=True):
    if encrypted is None:
        encrypted = rng.random() < 0.65
    mn, mx = chunker or rng.choice(CHUNKERS)
    s = {'hashing': dict(rng.choice(HASHERS)),
         'chunking': {'min_length': mn, 'max_length': mx}}
    if encrypted:
        kdf = {'name': 'scrypt', 'n': 4, 'r': rng.choice([1, 8]), 'p': 1} if fast_kdf else {}
        if fast_kdf and rng.random() < 0.15:
            kdf = {'name': 'blake2b'}
        s['encryption'] = {'cipher': dict(rng.choice(CIPHERS)), 'kdf': kdf}
    else:
        s['encryption'] = None
    return s


def settings_class(s):
    h = s['hashing']
    c = s['chunking']
    enc = s.get('encryption')
    hs = f"{h['name']}{h.get('length', h.get('bits', ''))}"
    cs = f"{c['min_length']}-{c['max_length']}"
    es = 'plain' if enc is None else f"{enc['cipher']['name']}{enc['cipher'].get('key_bits', '')}"
    return f'{hs}/{cs}/{es}'


def size_classes(mn, mx):
    """Label -> size, for the residues the property text names."""
    cl = {
        '0': 0, '1': 1, 'a-1': ALIGN - 1, 'a': ALIGN, 'a+1': ALIGN + 1,
        'min-1': max(mn - 1, 0), 'min': mn, 'min+1': mn + 1,
        'max-1': mx - 1, 'max': mx, 'max+1': mx + 1,
        '2max-1': 2 * mx - 1, '2max': 2 * mx, '2max+1': 2 * mx + 1,
        '3max+7': 3 * mx + 7, 'min+max': mn + mx, 'min+max-1': mn + mx - 1,
        '5max+2': 5 * mx + 2,
    }
    return cl


NAME_CLASSES = ['ascii', 'space', 'newline', 'dash', 'dot', 'long', 'utf8', 'nonutf8', 'percent',
                'tmp']


def gen_name(rng, cls=None):
    cls = cls or rng.choice(NAME_CLASSES)
    base = ''.join(rng.choice('abcdefghijklmnopqrstuvwxyz0123456789') for _ in range(rng.randint(1, 8)))
    if cls == 'ascii':
        return base, cls
    if cls == 'space':
        return base + ' ' + base[::-1] + ' ', cls
    if cls == 'newline':
        return base + '\n' + 'x', cls
    if cls == 'dash':
        return '-' + base, cls
    if cls == 'dot':
        return '.' + base, cls
    if cls == 'long':
        return (base * 64)[:255], cls
    if cls == 'utf8':
        return base + rng.choice(['é', 'ß', '日本語', '😀', 'ё', 'á']), cls
    if cls == 'nonutf8':
        return os.fsdecode(base.encode() + bytes([0xff, 0xfe, rng.randint(0x80, 0xbf)])), cls
    if cls == 'percent':
        return base + rng.choice(['%41', '?x=1', '#frag', '+plus', '&', "'q'", '"dq"', '\\bs', '{}', '*']), cls
    if cls == 'tmp':
        return base + '.tmp', cls
    raise ValueError(cls)


def content(recipe, files=None):
    """Deterministic bytes of a recipe."""
    k = recipe['kind']
    n = recipe['size']
    if k == 'zeros':
        return bytes(n)
    if k == 'random':
        return random.Random(recipe['seed']).randbytes(n)
    if k == 'const':
        return bytes([recipe['byte']]) * n
    if k == 'block':                # one block repeated
        blk = random.Random(recipe['seed']).randbytes(max(1, recipe['block']))
        return (blk * (n // len(blk) + 1))[:n]
    if k == 'copy':                 # identical to another file
        return content(files[recipe['of']]['recipe'], files)
    if k == 'ext':                  # another file plus prefix/suffix
        base = content(files[recipe['of']]['recipe'], files)
        pre = random.Random(recipe['seed']).randbytes(recipe.get('pre', 0))
        suf = random.Random(recipe['seed'] + 1).randbytes(recipe.get('suf', 0))
        return pre + base + suf
    if k == 'inner':                # random with a block repeated inside
        r = random.Random(recipe['seed'])
        blk = r.randbytes(max(1, recipe['block']))
        out = bytearray()
        while len(out) < n:
            out += blk if r.random() < 0.5 else r.randbytes(r.randint(1, max(1, recipe['block'])))
        return bytes(out[:n])
    raise ValueError(k)


def gen_recipe(rng, size, idx, allow_ref=True):
    r = rng.random()
    if idx > 0 and allow_ref and r < 0.12:
        return {'kind': 'copy', 'of': rng.randrange(idx), 'size': -1}
    if idx > 0 and allow_ref and r < 0.22:
        return {'kind': 'ext', 'of': rng.randrange(idx), 'size': -1, 'seed': rng.randrange(1 << 30),
                'pre': rng.choice([0, 0, 4, 8, 3, 64]), 'suf': rng.choice([0, 1, 4, 17])}
    if r < 0.32:
        return {'kind': 'zeros', 'size': size}
    if r < 0.42:
        return {'kind': 'block', 'size': size, 'seed': rng.randrange(1 << 30),
                'block': rng.choice([1, 3, 4, 16, 64, 100])}
    if r < 0.50:
        return {'kind': 'inner', 'size': size, 'seed': rng.randrange(1 << 30),
                'block': rng.choice([4, 16, 64, 256])}
    if r < 0.55:
        return {'kind': 'const', 'size': size, 'byte': rng.randrange(256)}
    return {'kind': 'random', 'size': size, 'seed': rng.randrange(1 << 30)}


def gen_tree(rng, mn, mx, nfiles=None, max_bytes=2_000_000, name_classes=None, sizes=None):
    """A tree: list of {'rel': [segments], 'recipe':…, 'mtime_ns': int, 'size_class': str}.
    No path is a prefix of another (files and directories do not collide)."""
    classes = size_classes(mn, mx)
    labels = list(classes)
    nfiles = nfiles if nfiles is not None else rng.choice([1, 2, 3, 5, 8, 13])
    files = []
    used_dirs, used_files = set(), set()
    dirs = [[]]
    for _ in range(rng.randint(0, 3)):
        parent = rng.choice(dirs)
        nm, _c = gen_name(rng, rng.choice(name_classes or ['ascii', 'space', 'utf8', 'dot']))
        d = parent + [nm]
        if tuple(d) in used_files or len(d) > 3:
            continue
        dirs.append(d)
        used_dirs.add(tuple(d))
    total = 0
    for i in range(nfiles):
        for _try in range(20):
            nm, ncls = gen_name(rng, rng.choice(name_classes) if name_classes else None)
            rel = rng.choice(dirs) + [nm]
            if tuple(rel) in used_dirs or tuple(rel) in used_files:
                continue
            break
        else:
            continue
        used_files.add(tuple(rel))
        if sizes is not None:
            label = sizes[i % len(sizes)]
        else:
            label = rng.choice(labels) if rng.random() < 0.8 else 'rand'
        size = classes[label] if label in classes else rng.randint(0, 6 * mx + 3)
        if total + size > max_bytes:
            size, label = rng.randint(0, 64), 'rand'
        recipe = gen_recipe(rng, size, len(files))
        ent = {'rel': rel, 'recipe': recipe, 'size_class': label, 'name_class': ncls,
               'mtime_ns': rng.choice([0, 1, 999_999_999, 1_600_000_000_123_456_789,
                                       rng.randrange(1, 2_000_000_000) * 1_000_000_000 + rng.randrange(10**9)])}
        files.append(ent)
        total += len(content(recipe, files)) if recipe['size'] == -1 else size
    return files


def materialise(root, files):
    """Create the tree under root; returns {relative-path-str: bytes}."""
    truth = {}
    for ent in files:
        p = os.path.join(root, *ent['rel'])
        os.makedirs(os.path.dirname(p), exist_ok=True)
        data = content(ent['recipe'], files)
        with open(p, 'wb') as f:
            f.write(data)
        os.utime(p, ns=(ent['mtime_ns'], ent['mtime_ns']))
        truth[os.path.join(*ent['rel'])] = data
    return truth


def walk_tree(root):
    """{path relative to root: (bytes, mtime_ns)} for regular files; symlinks reported as
    ('<symlink>', target)."""
    out = {}
    for dirpath, dirnames, filenames in os.walk(root, followlinks=False):
        for d in list(dirnames):
            full = os.path.join(dirpath, d)
            if os.path.islink(full):
                out[os.path.relpath(full, root)] = ('<symlink>', os.readlink(full))
        for fn in filenames:
            full = os.path.join(dirpath, fn)
            rel = os.path.relpath(full, root)
            if os.path.islink(full):
                out[rel] = ('<symlink>', os.readlink(full))
            else:
                st = os.stat(full)
                with open(full, 'rb') as f:
                    out[rel] = (f.read(), st.st_mtime_ns)
    return out


class ShortReads:
    """A seekable binary stream whose read(n) may return fewer than n bytes before the end (as raw files, pipes and
    sockets may): never an empty result before EOF.  Wraps bytes."""

    def __init__(self, data, seed=0):
        import io
        import random as _r
        self._b, self._r = io.BytesIO(data), _r.Random(seed)
        self.short_reads = 0

    def read(self, n=-1):
        left = len(self._b.getbuffer()) - self._b.tell()
        if n is None or n < 0 or n > left:
            n = left
        if n > 1 and self._r.random() < 0.5:
            n = self._r.randint(1, n - 1)
            self.short_reads += 1
        return self._b.read(n)

    def readinto(self, b):
        data = self.read(len(b))
        b[:len(data)] = data
        return len(data)

    def seek(self, *a):
        return self._b.seek(*a)

    def tell(self):
        return self._b.tell()

    def seekable(self):
        return True

    def readable(self):
        return True

    def close(self):
        pass
