"""C09 - snapshot and restore do not depend on thread or I/O scheduling."""
import asyncio
import hashlib
import json
import os
import random
import shutil
import subprocess
import sys
import tempfile
import threading
import time
from pathlib import Path

from .. import gen, paths
from ..harness import CheckBase

NS = [1, 2, 3, 5, 16]


def _slot_queue(repo):
    """The object's connection-slot queue, found by what it is (an asyncio/queue Queue held by the Repository object),
    not by its name; None if the object keeps its slots some other way (the behavioural probe then decides alone)."""
    import queue
    if os.environ.get('VF_C09_NOQUEUE'):          # self-test knob: let the behavioural probe decide alone
        return None
    found = [v for v in vars(repo).values() if isinstance(v, (asyncio.Queue, queue.Queue)) and hasattr(v, '_queue')]
    return found[0] if len(found) == 1 else None


class Check(CheckBase):
    property_id = 'C09'
    evaluations_counter = 'executions'
    level = 'exploration'
    rule = ('each execution = the real snapshot and restore of a generated tree (many small files sharing chunks, or few '
            'large files spanning many chunks) at concurrency N in {1,2,3,5,16} on a plain (executor threads) or coroutine '
            'backend, under (a) seeded per-call backend latencies (none / random / adversarially reversed / bursty), '
            '(b) sys.monitoring LINE+CALL yield injection (p in {0.02,0.06,0.15}) on every Repository method and closure, with separate (longer) delays at calls on synchronisation objects (queue/future/event/lock) and, in the sync-stress cases, a slow producer, '
            '(c) switch interval 10us; compared with a sequential reference run (N=1, no perturbation): manifest equal '
            'modulo timestamp/list order, restored tree byte-equal; online invariant in-flight transfers <= N at every '
            'transfer entry; after the operation returned or raised and everything it started has come to rest the slot queue '
            '(found by type) holds exactly the slots the object started with, and - behaviourally - the SAME object can still keep N '
            'transfers in flight at once (rendezvous in the store; on failure a second try, then a fresh object for comparison); half '
            'of the failing operations are followed at once by another command on the same object while slow transfers of the failed '
            'one are still under way; termination decided by a quiescent-deadlock detector (no monitored event and no backend call '
            'for 2 s and two identical stack samples); failure variants inject one permanent backend fault; process-level '
            'variant: a failing command run through asyncio.run in a child must let the interpreter exit. '
            'A class is a distinct (completion-order fingerprint) or (interleaving signature) or (kind,N,flavour,shape) tuple')
    assumptions = ['schedules are sampled, not enumerated; the evidence states how many distinct ones were seen',
                   'a blocking sleep in a monitoring callback only hands the GIL to other threads']
    case_timeout = 240

    def generate(self):
        quick = self.tier == 'quick'
        n = 160 if quick else 6000
        cases = []
        kinds = ['roundtrip'] * 6 + ['fail-snapshot', 'fail-restore']
        for i in range(n):
            r = random.Random(f'C09/{self.seed}/{i}')
            cases.append({
                'kind': kinds[i % len(kinds)],
                'seed': r.randrange(1 << 30),
                'N': NS[(i // len(kinds)) % len(NS)],
                'flavour': 'async' if ((i // 2) + (i // len(kinds))) % 2 else 'sync',
                'shape': ['small-shared', 'few-large', 'mixed'][i % 3],
                'p': [0.02, 0.06, 0.15][(i // 3) % 3],
                'settings': gen.gen_settings(r, chunker=r.choice([(8, 64), (4, 64), (16, 257), (12, 12), (64, 1024)])),
                'probe': kinds[i % len(kinds)] != 'roundtrip' or i % 3 == 0,
                # half of the failing operations are followed AT ONCE by another operation on the same object, while
                # transfers of the failed one may still be under way (slow transfers): the in-flight bound covers both
                'continue': kinds[i % len(kinds)] != 'roundtrip' and (i // (2 * len(kinds))) % 2 == 0,
                # a third of the failing restores fail because ONE chunk download delivers damaged bytes (while the other
                # downloads are slow): whatever the command does about it, the transfer bound holds
                'garble': kinds[i % len(kinds)] == 'fail-restore' and (i // len(kinds)) % 3 == 0,
            })
        # slot contention: many loader threads and many chunks (sixteen contenders for the last free slots)
        for i in range(12 if quick else 300):
            r = random.Random(f'C09/{self.seed}/c/{i}')
            cases.append({
                'kind': 'roundtrip', 'seed': r.randrange(1 << 30), 'N': 16, 'flavour': 'sync' if i % 3 else 'async',
                'shape': 'few-large', 'p': [0.06, 0.15][i % 2], 'probe': False, 'continue': False, 'garble': False,
                'settings': gen.gen_settings(r, chunker=r.choice([(8, 64), (4, 64), (16, 257)])),
            })
        # sync-stress: tiny trees, long delays at synchronisation calls and a slow producer (slow disk), so that
        # a polling consumer is preempted between two of its checks for a time comparable to its poll period
        for i in range(96 if quick else 2400):
            r = random.Random(f'C09/{self.seed}/s/{i}')
            cases.append({
                'kind': 'roundtrip', 'stress': True, 'seed': r.randrange(1 << 30), 'N': [1, 1, 1, 2][i % 4],
                'victim': ['loop', 'loop', 'pool0', 'pool1', 'pool2', 'pool3', '!loop', None][(i // 4) % 8],
                'slow': ['@pool0', '@pool1', '@pool0', None][(i // 2) % 4],
                'flavour': 'async' if i % 2 else 'sync', 'shape': 'tiny', 'p': 0.02,
                'settings': gen.gen_settings(r, chunker=r.choice([(8, 64), (4, 64), (12, 12)])),
            })
        for i in range(12 if quick else 200):
            r = random.Random(f'C09/{self.seed}/p/{i}')
            cases.append({'kind': 'proc-exit', 'seed': r.randrange(1 << 30), 'N': [1, 2, 5][i % 3],
                          'flavour': 'async' if i % 2 else 'sync', 'command': 'restore' if i % 4 != 3 else 'snapshot',
                          'settings': gen.gen_settings(r, chunker=(8, 64)), 'timeout': 120})
        return cases

    def worker_setup(self):
        from .. import rep, sched  # noqa: F401

    def floors(self, agg):
        c = agg['counters']
        q = self.tier == 'quick'
        unmet = []
        if c.get('executions', 0) < (200 if q else 5000):
            unmet.append(f'executions {c.get("executions", 0)} below floor')
        fp = len([k for k in agg['classes'] if k.startswith('order:')])
        if fp < (100 if q else 2000):
            unmet.append(f'distinct completion-order fingerprints {fp} below floor')
        # structural, not by name: the event loop, the executor workers and the producer thread must all have been watched
        for role in ('loop', 'other'):
            if c.get(f'events_in_{role}_threads', 0) < 1000:
                unmet.append(f'too few monitored events in {role} threads')
        if c.get('max_thread_groups_in_one_run', 0) < 3:
            unmet.append('never saw the event loop and two further groups of threads in one run')
        if c.get('max_distinct_functions_in_one_run', 0) < 8:
            unmet.append('too few distinct functions of the repository module observed in one run')
        if c.get('yields_injected', 0) < 1000:
            unmet.append('too few yields injected')
        if c.get('sync_point_events', 0) < 1000:
            unmet.append('too few synchronisation-point events observed')
        if c.get('slot_checks', 0) < (200 if q else 5000):
            unmet.append('too few slot checks')
        if c.get('slot_probes_reached_N', 0) + c.get('slot_queue_inspections', 0) < (100 if q else 2500):
            unmet.append('connection slots were observed too rarely (neither the queue nor the behavioural probe)')
        if c.get('proc_exit_runs', 0) < (8 if q else 100):
            unmet.append('too few process-level termination probes')
        return unmet[:6]

    # -------------------------------------------------------------------------------------------------
    def run_case(self, case):
        if case['kind'] == 'proc-exit':
            return self._proc_exit(case)
        scratch = tempfile.mkdtemp(prefix='vf-c09-', dir=paths.scratch_root())
        try:
            return self._run(case, scratch)
        finally:
            shutil.rmtree(scratch, ignore_errors=True)

    def _tree(self, case, scratch):
        r = random.Random(case['seed'])
        mx = case['settings']['chunking']['max_length']
        src = os.path.join(scratch, 'src')
        os.makedirs(os.path.join(src, 'd'))
        files = {}
        shape = case['shape']
        if shape == 'tiny':
            for i in range(r.randint(2, 6)):
                files[f'd/t{i}'] = r.randbytes(r.randint(1, 3 * mx))
        if shape in ('small-shared', 'mixed'):
            blocks = [r.randbytes(r.choice([3, 5, mx // 2, mx, mx + 3])) for _ in range(4)]
            for i in range(r.randint(12, 30)):
                files[f'd/s{i:02d}'] = r.choice(blocks) if r.random() < 0.7 else r.randbytes(r.randint(0, 2 * mx))
        if shape in ('few-large', 'mixed'):
            rep_blk = r.randbytes(mx)
            for i in range(r.randint(2, 4)):
                files[f'L{i}'] = r.randbytes(r.randint(10 * mx, 40 * mx)) + rep_blk * r.randint(0, 6)
            files['L-copy'] = files['L0']
        truth = {}
        for rel, data in files.items():
            p = os.path.join(src, rel)
            with open(p, 'wb') as f:
                f.write(data)
            os.utime(p, ns=(1, 1_500_000_000_000_000_000 + len(data)))
            truth[os.path.realpath(p)] = data
        return src, truth

    @staticmethod
    def _manifest(res):
        out = {}
        for f in res.data['files']:
            refs = sorted(f['chunks'], key=lambda c: c['counter'])
            md = f.get('metadata') or {}
            out[f['path']] = (f.get('digest'), md.get('st_size'), md.get('st_mtime_ns'),
                              [(bytes(res.chunks[c['index']]).hex()[:16], tuple(c['range']), c['counter']) for c in refs])
        return {'files': out, 'table': [bytes(c).hex()[:16] for c in res.chunks]}

    def _run(self, case, scratch):
        from .. import membackend, rep, sched
        src, truth = self._tree(case, scratch)
        N, flavour = case['N'], case['flavour']
        counters = {'executions': 0, 'slot_checks': 0}
        classes, violations = set(), []

        def viol(what, **w):
            violations.append({'what': what, 'mechanism': None,
                               'witness': dict(w, N=N, flavour=flavour, kind=case['kind'], shape=case['shape'],
                                               settings=case['settings'], p=case['p'])})

        # -- sequential reference ---------------------------------------------------------------------
        ref_store = membackend.Store(0)
        ref_be = membackend.make_backend(ref_store, 'sync')

        pre_objects = {}

        async def reference():
            _, key, _ = await rep.init(ref_be, case['settings'], concurrent=1)
            repo = await rep.unlocked(ref_be, key, concurrent=1)
            if case.get('continue'):
                # an older snapshot of other data, present from the start: something to restore right after a failure
                src0 = os.path.join(scratch, 'src0')
                os.makedirs(src0)
                pr = random.Random(case['seed'] + 13)
                mx = case['settings']['chunking']['max_length']
                for i in range(N + 3):
                    p0 = os.path.join(src0, f'o{i}')
                    data = pr.randbytes(mx + 2 + i)
                    with open(p0, 'wb') as fh:
                        fh.write(data)
                    os.utime(p0, ns=(1, 1_500_000_000_000_000_000 + len(data)))
                    truth[os.path.realpath(p0)] = data
                with rep.capture():
                    await repo.snapshot(paths=[Path(src0)])
                pre_objects.update(ref_store.snapshot_objects())
            with rep.capture():
                return key, await repo.snapshot(paths=[Path(src)])
        # the reference run is watched too: a command that cannot finish even sequentially is a violation, not a
        # reason for the harness to hang
        box = {}

        def ref_runner():
            try:
                box['res'] = asyncio.run(reference())
            except BaseException as e:
                box['err'] = e
        th = threading.Thread(target=ref_runner, daemon=True, name='vf-ref')
        th.start()
        state, stacks = sched.wait_or_deadlock(th, lambda: (ref_store.calls, len(ref_store.log)), hard_timeout=60, quiet=6.0)
        if state != 'done':
            if state == 'deadlock':
                return {'verdict': 'violated', 'classes': [], 'counters': counters, '_recycle': True,
                        'violations': [{'what': 'the sequential reference snapshot (N=1, no perturbation) never finishes: every thread '
                                                'is parked or spinning and no backend call happens', 'mechanism': None,
                                        'witness': {'stacks': _trim(stacks), 'shape': case['shape'], 'settings': case['settings']}}]}
            # no backend call for 60 s although threads are running: a spinning producer/consumer pair
            return {'verdict': 'violated', 'classes': [], 'counters': counters, '_recycle': True,
                    'violations': [{'what': 'the sequential reference snapshot (N=1, no perturbation) does not finish within 60 s of '
                                            'which the last ones passed without a single backend call', 'mechanism': None,
                                    'witness': {'stacks': _trim(stacks), 'shape': case['shape']}}]}
        if 'err' in box:
            return {'verdict': 'inconclusive', 'note': f'reference run failed: {type(box["err"]).__name__}: {box["err"]}', 'classes': [],
                    'counters': counters}
        key, ref_res = box['res']
        ref_manifest = self._manifest(ref_res)

        # -- perturbed runs on a fresh store that shares config (same keys => same names/digests) ---------
        store = membackend.Store(case['seed'])
        store.objects['config'] = ref_store.objects['config']
        store.objects.update(pre_objects)
        store.latency = membackend.random_latency(case['seed'], scale=0.002)
        store.in_flight_limit = N
        be = membackend.make_backend(store, flavour)
        if case.get('stress'):
            pert = sched.Perturber(case['seed'], p=case['p'], sync_p=0.8, sync_sleep=0.02,
                                   slow={case['slow']: (0.3, 0.02)} if case.get('slow') else None, victim=case.get('victim'))
            store.latency = None
        else:
            if case.get('continue'):
                # the transfers that overlap the failing call are slow (0.6 s), so that they are still under way when the
                # operation has failed and the next one starts; `slow_window` is set where the fault is planned
                ordinal = {'n': 0}
                slow_window = {'lo': None, 'hi': None, 'at': None}

                def continue_latency(op, name, idx):
                    if op not in ('upload_stream', 'download_stream') or slow_window['lo'] is None:
                        return 0
                    k = ordinal['n']
                    ordinal['n'] += 1
                    return 0.6 if slow_window['lo'] <= k <= slow_window['hi'] and k != slow_window['at'] else 0
                store.latency = continue_latency
            pert = sched.Perturber(case['seed'], p=case['p'], sync_p=0.3, sync_sleep=0.001)
        missing = pert.missing_closures() if False else []
        fault_rng = random.Random(case['seed'] ^ 0x5EED)

        async def check_slots(repo, label):
            """After the operation returned or raised: wait until everything it started has ended - no other
            asyncio task pending, no backend call in flight, no thread inside repository code - and only then
            demand that the slot queue holds exactly {2..N+1}.  (After a failure the surviving workers legitimately
            go on for a while; a momentarily full queue is not quiescence.)  If nothing moves any more while
            something is still pending, that is reported as what it is."""
            me = asyncio.current_task()
            my_thread = threading.get_ident()

            def busy_threads():
                out = []
                for ident, frame in sys._current_frames().items():
                    if ident == my_thread:
                        continue
                    f = frame
                    while f is not None:
                        if f.f_code.co_filename.endswith(('replicat/repository.py', 'vflib/membackend.py')):
                            out.append(ident)
                            break
                        f = f.f_back
                return out
            last, still, calm = None, 0, 0
            while still < 800 and calm < 3:
                pending = [t for t in asyncio.all_tasks() if t is not me and not t.done()]
                if not pending and store.in_flight == 0 and not busy_threads():
                    calm += 1
                else:
                    calm = 0
                cur = (store.calls, len(store.log), pert.events, len(pending))
                still = still + 1 if cur == last else 0
                last = cur
                await asyncio.sleep(0.005)
            counters['slot_checks'] += 1
            q = _slot_queue(repo)
            have = sorted(q._queue) if q is not None else None
            expect_slots = getattr(repo, '_vf_initial_slots', None)
            if have is not None:
                counters['slot_queue_inspections'] = counters.get('slot_queue_inspections', 0) + 1
            if calm < 3:
                viol(f'after {label} the operation\'s own tasks/threads never come to rest and nothing moves',
                     in_flight=store.in_flight, stacks=_trim(sched.stack_signature()), tasks=_task_chains())
            elif have is not None and expect_slots is not None and have != expect_slots:
                viol(f'connection slots after {label}: {have}, expected {expect_slots} (the slots the object started with)',
                     in_flight=store.in_flight, stacks=_trim(sched.stack_signature()), tasks=_task_chains())
            elif calm >= 3 and case.get('probe'):
                await probe(repo, label, probe_kind)

        probes = [0]

        async def probe(repo, label, kind):
            """Behavioural form of 'all slots are available again', independent of how slots are represented: the SAME
            Repository object must still be able to hold N transfers in flight at once.  Transfers of one kind wait at a
            rendezvous in the store until N of them have arrived (logical condition; the 6 s timeout only ends a failed
            probe).  If it fails, a FRESH object is probed the same way: only a difference between the two is a violation."""
            async def one(obj):
                probes[0] += 1
                if kind == 'upload':
                    psrc = os.path.join(scratch, f'probe{probes[0]}')
                    os.makedirs(psrc)
                    mx = case['settings']['chunking']['max_length']
                    pr = random.Random(case['seed'] * 7 + probes[0])
                    for i in range(N + 3):
                        with open(os.path.join(psrc, f'p{i}'), 'wb') as f:
                            f.write(pr.randbytes(mx + 1 + i))
                    target, op = N, 'upload_stream'
                else:
                    nchunks = len([n for n in store.names('data/')])
                    target, op = min(N, nchunks), 'download_stream'
                    if target < 1:
                        return None
                store.rendezvous = rv = {'op': op, 'target': target, 'arrived': 0, 'met': False, 'timeout': 6.0}
                saved_latency, store.latency = store.latency, None
                saved_objects, saved_faults, store.faults = store.snapshot_objects(), store.faults, []
                try:
                    with rep.capture():
                        if kind == 'upload':
                            await obj.snapshot(paths=[Path(psrc)])
                        else:
                            await obj.restore(path=Path(os.path.join(scratch, f'probe-target{probes[0]}')))
                except BaseException as e:
                    rv['error'] = f'{type(e).__name__}: {e}'[:200]
                finally:
                    store.rendezvous = None
                    store.latency, store.faults = saved_latency, saved_faults
                    with store.lock:                       # the probe leaves no trace in the repository
                        store.objects.clear()
                        store.objects.update(saved_objects)
                return rv
            rv = await one(repo)
            if rv is None:
                return
            counters['slot_probes'] = counters.get('slot_probes', 0) + 1
            counters[f'slot_probes_{kind}'] = counters.get(f'slot_probes_{kind}', 0) + 1
            if rv['met'] and 'error' not in rv:
                counters['slot_probes_reached_N'] = counters.get('slot_probes_reached_N', 0) + 1
                return
            # a lost slot stays lost: the same object is probed once more before anything is concluded (a loaded machine can
            # make one probe time out), then a fresh object the same way
            again = await one(repo)
            if again is not None and again['met'] and 'error' not in again:
                counters['slot_probes_reached_N'] = counters.get('slot_probes_reached_N', 0) + 1
                counters['slot_probes_second_chance'] = counters.get('slot_probes_second_chance', 0) + 1
                return
            fresh = await rep.unlocked(be, key, concurrent=N)
            rv2 = await one(fresh)
            if rv2 is not None and rv2['met'] and 'error' not in rv2:
                viol(f'after {label} the same Repository object can no longer keep {rv["target"]} {rv["op"]} transfers in flight '
                     f'(only {rv["arrived"]} arrived' + (f', then {rv["error"]}' if 'error' in rv else '') +
                     '); a fresh object can: connection slots were not all returned')
            else:
                counters['slot_probes_inapplicable'] = counters.get('slot_probes_inapplicable', 0) + 1

        outcome = {}

        probe_kind = 'upload'

        async def op_snapshot(fail):
            nonlocal probe_kind
            probe_kind = 'upload'
            repo = await rep.unlocked(be, key, concurrent=N)
            q = _slot_queue(repo)
            if q is not None:
                repo._vf_initial_slots = sorted(q._queue)
                if len(repo._vf_initial_slots) != N:
                    viol(f'a fresh Repository(concurrent={N}) starts with {len(repo._vf_initial_slots)} connection slots')
            if fail:
                store.faults = [{'op': fault_rng.choice(['upload_stream', 'exists', 'upload_stream']),
                                 'nth': fault_rng.randrange(0, 12), 'count': None}]
                if case.get('continue'):
                    store.faults[0]['op'] = 'upload_stream'
                    ordinal['n'] = 0
                    slow_window.update(lo=store.faults[0]['nth'] - N, hi=store.faults[0]['nth'] + N, at=store.faults[0]['nth'])
            try:
                with rep.capture():
                    res = await repo.snapshot(paths=[Path(src)])
                outcome['snapshot'] = ('returned', res)
            except BaseException as e:
                outcome['snapshot'] = ('raised', e)
            finally:
                store.faults = []
            if fail and case.get('continue'):
                try:
                    with rep.capture():
                        if fault_rng.random() < 0.7:
                            await repo.restore(path=Path(os.path.join(scratch, 'after-failed-snapshot')))
                        else:
                            src2 = os.path.join(scratch, 'src2')
                            os.makedirs(src2, exist_ok=True)
                            pr = random.Random(case['seed'] + 11)
                            mx = case['settings']['chunking']['max_length']
                            for i in range(N + 3):
                                with open(os.path.join(src2, f'c{i}'), 'wb') as fh:
                                    fh.write(pr.randbytes(mx + 1 + i))
                            await repo.snapshot(paths=[Path(src2)])
                    outcome['continued'] = ('returned', None)
                except BaseException as e:
                    outcome['continued'] = ('raised', e)
                counters['continued_after_failure'] = counters.get('continued_after_failure', 0) + 1
            await check_slots(repo, 'snapshot ' + outcome['snapshot'][0])

        async def op_restore(fail, target):
            nonlocal probe_kind
            probe_kind = 'download'
            repo = await rep.unlocked(be, key, concurrent=N)
            q = _slot_queue(repo)
            if q is not None:
                repo._vf_initial_slots = sorted(q._queue)
            if fail and case.get('garble'):
                left = {'n': 1, 'skip': fault_rng.randrange(0, 4)}

                def garble_once(name, data):
                    if name.startswith('data/') and data and left['n']:
                        if left['skip']:
                            left['skip'] -= 1
                            return data
                        left['n'] -= 1
                        counters['garbled_downloads'] = counters.get('garbled_downloads', 0) + 1
                        return data[:-1] + bytes([data[-1] ^ 0x40])
                    return data
                store.garble = garble_once
                saved_latency, store.latency = store.latency, (lambda op, name, idx: 0.15 if op == 'download_stream' else 0)
            elif fail:
                store.faults = [{'op': fault_rng.choice(['download_stream', 'download_stream', 'download']),
                                 'nth': fault_rng.randrange(0, 10), 'count': None, 'prefix': None}]
                if case.get('continue'):
                    store.faults[0]['op'] = 'download_stream'
                    ordinal['n'] = 0
                    slow_window.update(lo=store.faults[0]['nth'] - N, hi=store.faults[0]['nth'] + N, at=store.faults[0]['nth'])
            try:
                with rep.capture():
                    res = await repo.restore(path=Path(target))
                outcome['restore'] = ('returned', res)
            except BaseException as e:
                outcome['restore'] = ('raised', e)
            finally:
                store.faults = []
                if case.get('garble') and fail:
                    store.garble, store.latency = None, saved_latency
            if fail and case.get('continue'):
                try:
                    with rep.capture():
                        await repo.restore(path=Path(target + '-again'))
                    outcome['continued'] = ('returned', None)
                except BaseException as e:
                    outcome['continued'] = ('raised', e)
                counters['continued_after_failure'] = counters.get('continued_after_failure', 0) + 1
            await check_slots(repo, 'restore ' + outcome['restore'][0])

        def run_threaded(coro_fn, *a):
            box = {}

            def runner():
                try:
                    asyncio.run(coro_fn(*a))
                except BaseException as e:       # harness-level failure
                    box['error'] = e
            th = threading.Thread(target=runner, daemon=True, name='vf-op')
            th.start()
            state, stacks = sched.wait_or_deadlock(th, lambda: (pert.events, store.calls, len(store.log)),
                                                   hard_timeout=120, work=lambda: (store.calls, len(store.log)),
                                                   recent_lines=pert.recent_lines)
            if state == 'livelock':
                state = 'deadlock'
            return state, stacks, box.get('error')

        pert.install()
        recycle = False
        try:
            # ---- snapshot -------------------------------------------------------------------------
            fail_snap = case['kind'] == 'fail-snapshot'
            state, stacks, err = run_threaded(op_snapshot, fail_snap)
            counters['executions'] += 1
            if state == 'deadlock':
                viol('snapshot never finishes: ' + ('a polling loop spins without any backend call for 8 s' if 'spinning_on' in stacks
                                                    else 'every thread is parked and nothing moves'), stacks=_trim(stacks))
                recycle = True
            elif state == 'watchdog':
                return {'verdict': 'inconclusive', 'note': 'watchdog during snapshot', 'classes': [], 'counters': counters,
                        '_recycle': True}
            elif err is not None:
                return {'verdict': 'inconclusive', 'note': f'harness error {err!r}', 'classes': [], 'counters': counters}
            else:
                kind, val = outcome['snapshot']
                if fail_snap:
                    if kind == 'returned' and store.fault_hits:
                        viol('snapshot returned normally although a backend call failed for good')
                    elif kind == 'raised' and not isinstance(val, membackend.InjectedFault):
                        viol(f'snapshot with one failing backend call raised {type(val).__name__}: {val} instead of the backend error')
                elif kind == 'raised':
                    viol(f'snapshot raised {type(val).__name__}: {val} under a perturbed schedule; the sequential run succeeds',
                         trace=_tb(val))
                else:
                    m = self._manifest(val)
                    if m != ref_manifest:
                        bad = [p for p in set(m['files']) | set(ref_manifest['files'])
                               if m['files'].get(p) != ref_manifest['files'].get(p)][:3]
                        viol('snapshot manifest differs from the sequential run',
                             table_equal=m['table'] == ref_manifest['table'], files=bad,
                             got=[m['files'].get(p) for p in bad][:1], want=[ref_manifest['files'].get(p) for p in bad][:1])
                    refd = {l for l in store.objects if l.startswith('data/')}
                    counters['chunk_objects'] = len(refd)
            if outcome.get('continued', ('returned',))[0] == 'raised':
                e = outcome.pop('continued')[1]
                viol(f'a command started on the same Repository object right after a failed snapshot raised {type(e).__name__}: {e}',
                     trace=_tb(e))
            outcome.pop('continued', None)
            if store.violations:
                viol(store.violations[0]['what'] + ' (during snapshot)', event=store.violations[0])
                store.violations.clear()
            # ---- restore --------------------------------------------------------------------------------
            if not violations and not recycle:
                if fail_snap or outcome['snapshot'][0] != 'returned':
                    # give restore a complete repository to work on: the reference one
                    store.objects = dict(ref_store.objects)
                fail_res = case['kind'] == 'fail-restore'
                target = os.path.join(scratch, 'target')
                state, stacks, err = run_threaded(op_restore, fail_res, target)
                counters['executions'] += 1
                if state == 'deadlock':
                    viol('restore never finishes: ' + ('a polling loop spins without any backend call for 8 s' if 'spinning_on' in stacks
                                                       else 'every thread is parked and nothing moves'), stacks=_trim(stacks))
                    recycle = True
                elif state == 'watchdog':
                    return {'verdict': 'inconclusive', 'note': 'watchdog during restore', 'classes': [],
                            'counters': counters, '_recycle': True}
                elif err is not None:
                    return {'verdict': 'inconclusive', 'note': f'harness error {err!r}', 'classes': [], 'counters': counters}
                else:
                    kind, val = outcome['restore']
                    if fail_res and case.get('garble'):
                        # damaged bytes: an error, or a restore that got the right bytes after all - never wrong content
                        if kind == 'returned':
                            got = {'/' + k: v for k, v in gen.walk_tree(target).items()}
                            if any(p not in got or got[p][0] != truth[p] for p in truth):
                                viol('restore returned normally with wrong content after a chunk download delivered damaged bytes')
                    elif fail_res:
                        if kind == 'returned' and store.fault_hits:
                            viol('restore returned normally although a backend call failed for good')
                        elif kind == 'raised' and not isinstance(val, membackend.InjectedFault):
                            viol(f'restore with one failing backend call raised {type(val).__name__}: {val} instead of the backend error',
                                 trace=_tb(val))
                    elif kind == 'raised':
                        viol(f'restore raised {type(val).__name__}: {val!r} under a perturbed schedule; the sequential run succeeds',
                             trace=_tb(val))
                    else:
                        got = {'/' + k: v for k, v in gen.walk_tree(target).items()}
                        bad = [p for p in set(got) | set(truth)
                               if p not in got or p not in truth or got[p][0] != truth[p]][:3]
                        if bad:
                            viol('restored tree differs from the source under a perturbed schedule', paths=bad)
                        elif any(got[p][1] != 1_500_000_000_000_000_000 + len(truth[p]) for p in truth):
                            viol('restored mtime differs under a perturbed schedule')
                if store.violations:
                    viol(store.violations[0]['what'] + ' (during restore)', event=store.violations[0])
        finally:
            pert.uninstall()
        counters['events'] = pert.events
        counters['yields_injected'] = pert.yields
        counters['events_in_loop_threads'] = pert.per_role.get('loop', 0)
        counters['events_in_other_threads'] = sum(n for role, n in pert.per_role.items() if role != 'loop')
        counters['max_thread_groups_in_one_run'] = len(pert.per_role)
        counters['max_distinct_functions_in_one_run'] = len(pert.codes_hit)
        for name, n in sorted(pert.per_code.items(), key=lambda kv: -kv[1])[:12]:      # informational
            counters[f'events_{name}'] = n
        counters[f'max_in_flight_N{N}'] = store.max_in_flight
        classes.add('order:' + hashlib.sha1(json.dumps(store.completion_order).encode()).hexdigest()[:12])
        classes.add('ilv:' + hashlib.sha1(json.dumps(pert.signature).encode()).hexdigest()[:12])
        classes.add(f"{case['kind']}|N{N}|{flavour}|{case['shape']}" + (f"|victim={case.get('victim')}" if case.get('stress') else ''))
        counters['sync_point_events'] = pert.sync_events
        res = {'verdict': 'violated' if violations else 'held', 'classes': sorted(classes), 'counters': counters,
               'violations': violations[:3]}
        if recycle or threading.active_count() > 120:
            res['_recycle'] = True
        return res

    # -------------------------------------------------------------------------------------------------
    def _proc_exit(self, case):
        r = random.Random(case['seed'])
        cmd = case['command']
        fault = ({'op': r.choice(['download_stream', 'download_stream', 'download']), 'nth': r.randrange(0, 6), 'count': None}
                 if cmd == 'restore' else
                 {'op': r.choice(['upload_stream', 'exists']), 'nth': r.randrange(0, 6), 'count': None})
        spec = {'seed': case['seed'], 'flavour': case['flavour'], 'settings': case['settings'], 'concurrent': case['N'],
                'command': cmd, 'fault': fault, 'nfiles': r.randint(6, 20), 'maxsize': 64 * r.randint(6, 40),
                'latency': r.random() < 0.7, 'scratch': paths.scratch_root()}
        try:
            p = subprocess.run([paths.PYTHON, '-m', 'vflib.procexit', json.dumps(spec)], capture_output=True, text=True,
                               timeout=100, cwd=str(paths.VERIF))
        except subprocess.TimeoutExpired:
            return {'verdict': 'inconclusive', 'note': 'child watchdog', 'classes': [], 'counters': {}}
        cls = [f'proc-exit|{cmd}|N{case["N"]}|{case["flavour"]}']
        if p.returncode == 97:
            line = next((l for l in p.stderr.splitlines() if l.startswith('DEADLOCK ')), 'DEADLOCK {}')
            info = json.loads(line[9:])
            return {'verdict': 'violated', 'classes': cls, 'counters': {'proc_exit_runs': 1},
                    'violations': [{'what': f'after a failing {cmd} ({info.get("outcome")}) the interpreter never exits: '
                                            f'threads are parked for good', 'mechanism': None,
                                    'witness': {'stacks': _trim(info.get('stacks', {})), 'spec': spec}}]}
        if p.returncode != 0:
            return {'verdict': 'inconclusive', 'note': f'child rc={p.returncode}: {p.stderr[-800:]}', 'classes': [],
                    'counters': {}}
        out = json.loads(p.stdout.strip().splitlines()[-1])
        return {'verdict': 'held', 'classes': cls + [f'proc-exit-outcome|{out["outcome"].split()[0]}'],
                'counters': {'proc_exit_runs': 1, 'proc_exit_fault_hits': out['fault_hits']}, 'violations': []}


def _task_chains():
    """Await chains of all pending asyncio tasks of the running loop (witness only)."""
    out = []
    for t in asyncio.all_tasks():
        chain, c = [], t.get_coro()
        while c is not None and len(chain) < 12:
            fr = getattr(c, 'cr_frame', None) or getattr(c, 'gi_frame', None) or getattr(c, 'ag_frame', None)
            if fr is not None:
                chain.append(f'{fr.f_code.co_name}:{fr.f_lineno}')
            else:
                chain.append(type(c).__name__)
            c = getattr(c, 'cr_await', None) or getattr(c, 'gi_yieldfrom', None) or getattr(c, 'ag_await', None)
        loop = asyncio.get_running_loop()
        ready = [repr(h)[:120] for h in list(loop._ready)[:30]]
        out.append({'task': t.get_name(), 'done': t.done(), 'chain': chain, 'fut_waiter': repr(getattr(t, '_fut_waiter', None))[:160],
                    'cancelling': t.cancelling(), 'ready_len': len(loop._ready), 'sched_len': len(loop._scheduled),
                    'ready': ready if len(out) == 0 else None})
    return out[:40]


def _trim(stacks):
    return {k: v[:12 if k == 'spinning_on' else 7] for k, v in list(stacks.items())[:11]}


def _tb(e):
    import traceback
    return ''.join(traceback.format_exception(type(e), e, e.__traceback__))[-1800:]
