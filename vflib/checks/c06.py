"""C06 - access rights follow key relationships."""
import asyncio
import os
import random
import shutil
import tempfile
from pathlib import Path

from .. import gen
from ..harness import CheckBase

REL_KINDS = ('self', 'shared', 'clone', 'independent')


def relation(world, u, v):
    """Relationship of v's key to u's key."""
    if u == v:
        return 'self'
    a, b = world.users[u], world.users[v]
    if a.family != b.family:
        return 'independent'
    if a.kind == 'clone' or b.kind == 'clone':
        return 'clone'
    return 'shared'


class Check(CheckBase):
    property_id = 'C06'
    evaluations_counter = 'histories'
    level = 'exploration'
    rule = ('encrypted repositories with key graphs of 2-5 keys (owner, shared, shared-of-shared, clone, independent; varied '
            'KDF parameters); every user takes snapshots over overlapping file sets; then (1) the full (password x key) unlock '
            'matrix plus wrong/empty passwords: unlock succeeds iff the password is the one the key was created with; '
            '(2) for every ordered pair (acting user u, snapshot owner v): list-snapshots shows the names of family(u) with '
            'details iff v==u, list-files and restore cover exactly the snapshots made under u\'s own key, delete of a '
            'snapshot of v!=u (alone or mixed with own ones) raises and causes zero backend mutations, clean/delete by u '
            'leave every object of other families byte-identical and never remove a chunk referenced by another user\'s '
            'snapshot (online monitor), a same-family user re-snapshotting v\'s data uploads no chunk payload; (3) whole life cycles through '
            '`python -m replicat` in child processes on the local backend (init, add-key independent / --shared / --clone in seeded order, '
            'snapshots, list-snapshots, list-files, restore, wrong passwords), judged against the intended relationships with the '
            'independent reader and the bytes on disk. '
            'class = (relationship kind of the pair, operation)')
    assumptions = ['access model: family = root of the shared chain; reader(s) = the exact key that made s (a clone has its own '
                   'user key); -vv logging is out of scope']
    case_timeout = 300

    def generate(self):
        quick = self.tier == 'quick'
        n = 48 if quick else 2400
        cases = []
        for i in range(n):
            r = random.Random(f'C06/{self.seed}/{i}')
            cases.append({
                'seed': r.randrange(1 << 30),
                'settings': gen.gen_settings(r, encrypted=True, chunker=r.choice([(8, 64), (4, 64), (16, 257), (12, 12)])),
                'flavour': 'async' if i % 2 else 'sync',
                'concurrent': r.choice([1, 2, 5]),
                'force': ['shared', 'clone', 'independent', 'shared-of-prev'][i % 4],
            })
        # the same relationships through the program entry point (python -m replicat in child processes)
        for i in range(8 if quick else 240):
            cases.insert(i, {'kind': 'cli', 'seed': random.Random(f'C06/{self.seed}/cli/{i}').randrange(1 << 30), 'timeout': 900})
        return cases

    def worker_setup(self):
        from .. import hist  # noqa: F401

    def floors(self, agg):
        unmet = []
        for kind in REL_KINDS:
            for op in ('list', 'listfiles', 'restore', 'delete', 'clean'):
                if kind == 'self' and op == 'delete':
                    continue
                if f'{kind}|{op}' not in agg['classes']:
                    unmet.append(f'class {kind}|{op} not exercised')
        c = agg['counters']
        if c.get('unlock_pairs', 0) < (300 if self.tier == 'quick' else 5000):
            unmet.append('too few unlock pairs')
        if c.get('refused_deletes', 0) < 50:
            unmet.append('too few cross-user delete attempts')
        if c.get('sessions_continued_after_add_key', 0) < 10:
            unmet.append('too few long-lived sessions continued after add-key')
        return unmet[:6]

    def run_case(self, case):
        if case.get('kind') == 'cli':
            from .. import cliflow
            return cliflow.run_case(case['seed'], 'access')
        from .. import hist
        r = random.Random(case['seed'])
        graph = hist.gen_graph(r, True)
        f = case['force']
        if f == 'independent' and 'independent' not in graph:
            graph.append('independent')
        elif f == 'clone' and not any(isinstance(g, tuple) and g[0] == 'clone' for g in graph):
            graph.append(('clone', r.randrange(len(graph))))
        elif f in ('shared', 'shared-of-prev') and not any(isinstance(g, tuple) and g[0] == 'shared' for g in graph):
            graph.append(('shared', len(graph) - 1 if f == 'shared-of-prev' else 0))
        world = hist.World(case['seed'], case['settings'], case['flavour'], case['concurrent'], graph)
        classes = set()

        def other_image(fam):
            return {n: d for n, d in world.store.snapshot_objects().items()
                    if not ((n.startswith('data/') or n.startswith('snapshots/')) and world.family_of_location(n) == fam)}

        async def go():
            await world.setup()
            world.plant_foreign()
            users = sorted(world.users)
            mn, mx = case['settings']['chunking']['min_length'], case['settings']['chunking']['max_length']
            pool = hist.make_pool(r, mn, mx)
            # -- 1. unlock matrix ------------------------------------------------------------------------
            passwords = {u: world.users[u].password for u in users}
            extra = {'<empty>': b'', '<random>': r.randbytes(9), '<prefix>': passwords['u0'][:-1],
                     '<suffix>': passwords['u0'] + b'x'}
            for ku in users:
                key = world.users[ku].key
                for pname, pw in list(passwords.items()) + list(extra.items()):
                    ok, err = await world.try_unlock(key, pw)
                    world.count('unlock_pairs')
                    expect = (pw == world.users[ku].password)
                    if ok != expect:
                        world.finding('C06', f'unlock with key of {ku} and password of {pname} '
                                             f'{"succeeded" if ok else "failed"}; expected {"success" if expect else "failure"}',
                                      error=repr(err))
                ok, err = await world.try_unlock(None, passwords[ku])
                if ok:
                    world.finding('C06', 'unlock of an encrypted repository succeeded without a key')
            # -- 1b. a key created from inside a long-lived session: the session must go on acting as its user ---
            if case['seed'] % 2 == 0:
                from .. import refimpl, rep
                u = r.choice(users)
                session = await world.repo(u, fresh=True)
                shared = r.random() < 0.6
                with rep.capture():
                    res = await session.add_key(password=b'pw-ux', settings=world._kdf_settings(), shared=shared)
                key = session.serialize(res.new_key)
                fam = world.users[u].family if shared else 'fx'
                world.users['ux'] = hist.User('ux', key, b'pw-ux', fam, 'shared' if shared else 'independent', u)
                world.users['ux'].ref = refimpl.Ref(world.config_bytes, key, b'pw-ux')
                await world.snapshot(u, hist.gen_fileset(r, pool, nmax=3), note=f'session-of-{u}', repo=session)
                world.count('sessions_continued_after_add_key')
                users = sorted(world.users)
                passwords['ux'] = b'pw-ux'
            # -- 1c. passwords longer than any internal key-size limit, with the documented blake2b user KDF: a key either
            #        cannot be created with such a password, or passwords that share a long prefix do not unlock it
            from .. import rep as rep_
            long_pw = r.randbytes(70 + r.randrange(40))
            for shared in (True, False):
                sess = await world.repo('u0', fresh=True)
                try:
                    with rep_.capture():
                        res = await sess.add_key(password=long_pw, shared=shared, settings={'encryption': {'kdf': {'name': 'blake2b'}}})
                except Exception:
                    world.count('long_password_keys_refused')
                    continue
                k_long = sess.serialize(res.new_key)
                world.count('long_password_keys_created')
                for label, pw in (('same', long_pw), ('first-64-bytes', long_pw[:64]), ('same-first-64-other-tail', long_pw[:64] + b'x' * (len(long_pw) - 64)),
                                  ('one-byte-longer', long_pw + b'y'), ('last-byte-changed', long_pw[:-1] + bytes([long_pw[-1] ^ 1]))):
                    ok, err = await world.try_unlock(k_long, pw)
                    world.count('unlock_pairs')
                    if ok != (pw == long_pw):
                        world.finding('C06', f'a key created with a {len(long_pw)}-byte password (blake2b KDF) '
                                             f'{"unlocks" if ok else "does not unlock"} with the password variant "{label}"')
            # -- 2. every user takes snapshots ---------------------------------------------------------------
            filesets = {}
            for u in users:
                for k in range(r.randint(1, 2)):
                    fs = hist.gen_fileset(r, pool, nmax=4)
                    note = f'note-of-{u}-{k}'
                    await world.snapshot(u, fs, note=note)
                    filesets[u] = fs
            # -- 3. cross-user observations -------------------------------------------------------------------
            for u in users:
                fam = world.users[u].family
                out = await world.list_snapshots(u, header=False)
                rows = [[c.strip() for c in line.split('\t')] for line in out.splitlines() if line.strip()]
                shown = {row[0]: row for row in rows}
                expect_names = {n for n, s in world.snaps.items() if world.users[s.user].family == fam}
                if set(shown) != expect_names or len(rows) != len(expect_names):
                    world.finding('C06', f'list-snapshots by {u} shows the wrong set of snapshots',
                                  extra=[n[:12] for n in set(shown) - expect_names],
                                  missing=[n[:12] for n in expect_names - set(shown)])
                for n, row in shown.items():
                    s = world.snaps.get(n)
                    if s is None:
                        continue
                    kind = relation(world, u, s.user)
                    classes.add(f'{kind}|list')
                    detailed = any(c != '--' for c in row[1:])
                    if detailed != (s.user == u):
                        world.finding('C06', f'list-snapshots by {u} {"shows" if detailed else "hides"} details of a snapshot made '
                                             f'under the key of {s.user} ({kind})', row=row)
                for v in users:
                    if world.users[v].family != fam:
                        classes.add('independent|list')
                # list-files: exactly the files of u's own snapshots
                from replicat.utils import FileListColumn as FC
                out = await world.list_files(u, header=False, columns=[FC.SNAPSHOT_NAME, FC.PATH])
                got = sorted(tuple(c.strip() for c in line.split('\t')) for line in out.splitlines() if line.strip())
                want = sorted((n, p) for n, s in world.snaps.items() if s.user == u for p in s.files)
                if got != want:
                    world.finding('C06', f'list-files by {u} does not show exactly the files of its own snapshots',
                                  extra=[g for g in got if g not in want][:3], missing=[w for w in want if w not in got][:3])
                for v in users:
                    classes.add(f'{relation(world, u, v)}|listfiles')
                # restore without filter: exactly u's own paths
                res, tree = await world.restore(u)
                own_paths = {p for s in world.snaps.values() if s.user == u for p in s.files}
                if set(tree) != own_paths:
                    world.finding('C06', f'restore by {u} wrote files that are not in its own snapshots (or missed some)',
                                  extra=sorted(set(tree) - own_paths)[:3], missing=sorted(own_paths - set(tree))[:3])
                for n, s in sorted(world.snaps.items()):
                    v = s.user
                    kind = relation(world, u, v)
                    res, tree = await world.restore(u, snapshot_regex=f'^{n}$')
                    classes.add(f'{kind}|restore')
                    world.count('targeted_restores')
                    if v == u:
                        if tree != s.files:
                            world.finding('C06', f'{u} cannot restore its own snapshot correctly', snapshot=n[:12])
                    elif tree or (res.files or []):
                        world.finding('C06', f'{u} restored {len(tree)} file(s) of a snapshot made under the key of {v} ({kind})',
                                      snapshot=n[:12])
                    if v != u:
                        # delete must refuse and mutate nothing
                        own = [m for m, t in world.snaps.items() if t.user == u]
                        for names in ([n], ([own[0], n] if own else None), ([n, own[0]] if own else None)):
                            if names is None:
                                continue
                            before = len(world.store.mutations)
                            image = world.store.snapshot_objects()
                            repo = await world.repo(u)
                            raised = None
                            try:
                                from .. import rep
                                with rep.capture():
                                    await repo.delete_snapshots(list(names), confirm=False)
                            except Exception as e:
                                raised = e
                            await world.drain()
                            world.count('refused_deletes')
                            classes.add(f'{kind}|delete')
                            if raised is None:
                                world.finding('C06', f'delete by {u} of a snapshot made under the key of {v} ({kind}) did not fail',
                                              names=[x[:12] for x in names])
                            if len(world.store.mutations) != before or world.store.snapshot_objects() != image:
                                world.finding('C06', f'a refused delete by {u} ({kind} to {v}) still mutated the repository: '
                                                     f'{len(world.store.mutations) - before} mutation(s)',
                                              names=[x[:12] for x in names],
                                              mutations=[(m[1], m[2][:40]) for m in world.store.mutations[before:][:4]])
                            if raised is None:
                                # ground truth repair so that later audits do not cascade
                                for x in names:
                                    if x in world.snaps and world.snaps[x].location not in world.store.objects:
                                        world.deleted[x] = world.snaps.pop(x)
            # -- 3b. ONE Repository object used by several users in turn (re-unlocked), each after the previous one listed:
            #        what the next user sees must be its own view
            from replicat.utils import SnapshotListColumn as SC2
            shared_obj = rep_.new_repo(world.backend('switcher'), 3)
            for u in r.sample(users, len(users)):
                with rep_.capture():
                    await shared_obj.unlock(password=world.users[u].password, key=world.users[u].key)
                with rep_.capture() as cap:
                    await shared_obj.list_snapshots(header=False, columns=[SC2.NAME, SC2.NOTE, SC2.FILE_COUNT])
                rows = [[c.strip() for c in l.split('\t')] for l in cap.stdout.split('\n')[:-1]]
                fam = world.users[u].family
                want_names = sorted(n for n, s_ in world.snaps.items() if world.users[s_.user].family == fam)
                world.count('views_on_a_reused_object')
                if sorted(row[0] for row in rows) != want_names:
                    world.finding('C06', f'a Repository object re-unlocked as {u} lists snapshots of another view',
                                  extra=[x[:10] for x in set(row[0] for row in rows) - set(want_names)][:3],
                                  missing=[x[:10] for x in set(want_names) - set(row[0] for row in rows)][:3])
                for row in rows:
                    s_ = world.snaps.get(row[0])
                    if s_ is not None and (any(c != '--' for c in row[1:])) != (s_.user == u):
                        world.finding('C06', f'a Repository object re-unlocked as {u} {"shows" if s_.user != u else "hides"} details of a '
                                             f'snapshot made under the key of {s_.user}', row=row)
                        break
                target = tempfile.mkdtemp(prefix='reuse-', dir=world.scratch)
                with rep_.capture():
                    res = await shared_obj.restore(path=Path(target))
                own_paths = sorted(p for s_ in world.snaps.values() if s_.user == u for p in s_.files)
                if sorted(set(res.files or [])) != sorted(set(own_paths)):
                    world.finding('C06', f'a Repository object re-unlocked as {u} restores files of snapshots made under other keys',
                                  extra=sorted(set(res.files or []) - set(own_paths))[:3])
                shutil.rmtree(target, ignore_errors=True)
            # -- 3c. the same object, now holding keys it has unlocked before: a key it knows with a password that is not that
            #        key's (another user's, an empty one, a wrong one) must still be refused
            for u in users:
                for label, pw in [('another user\'s password', world.users[v].password) for v in users
                                  if world.users[v].password != world.users[u].password][:2] + [('a wrong password', b'nope'), ('an empty password', b'')]:
                    world.count('reunlock_attempts_on_a_reused_object')
                    try:
                        with rep_.capture():
                            await shared_obj.unlock(password=pw, key=world.users[u].key)
                    except Exception:
                        continue
                    world.finding('C06', f'a Repository object that has unlocked the key of {u} before accepts that key again with {label}')
            # -- 4. dedup against same-family users, destructive commands confined ------------------------------
            for u in users:
                fam = world.users[u].family
                mates = [v for v in users if v != u and world.users[v].family == fam and v in filesets]
                if mates:
                    v = r.choice(mates)
                    before = len(world.store.log)
                    await world.snapshot(u, filesets[v])
                    payload = [e for e in world.store.log[before:] if e['op'] == 'upload_stream']
                    world.count('same_family_resnapshots')
                    if payload:
                        world.finding('C06', f'{u} re-uploaded {len(payload)} chunk(s) that same-family user {v} had already stored')
            for u in r.sample(users, len(users)):
                fam = world.users[u].family
                own = [m for m, t in world.snaps.items() if t.user == u]
                img = other_image(fam)
                if own and r.random() < 0.7:
                    await world.delete(u, r.sample(own, r.randint(1, len(own))))
                    if other_image(fam) != img:
                        world.finding('C06', f'delete by {u} changed objects of another key family')
                await world.clean(u)
                if other_image(fam) != img:
                    world.finding('C06', f'clean by {u} changed objects of another key family')
                for v in users:
                    classes.add(f'{relation(world, u, v)}|clean')
                world.audit_integrity('C06')
            for n in sorted(world.snaps)[:4]:
                await world.restore_check(n, prop='C06')
        try:
            asyncio.run(go())
        except Exception as e:
            import traceback
            world.finding('C06', f'history aborted by {type(e).__name__}: {e}', trace=traceback.format_exc()[-2000:])
        finally:
            world.close()
        counters = dict(world.counters)
        counters['histories'] = 1
        mine = world.take_findings(('C06',))
        others = [x for x in world.findings if x['prop'] != 'C06']
        counters['findings_for_other_properties'] = len(others)
        viol = [{'what': x['what'], 'mechanism': None, 'witness': dict(x['witness'], graph=graph, settings=case['settings'])}
                for x in mine[:4]]
        return {'verdict': 'violated' if viol else 'held', 'classes': sorted(classes), 'counters': counters,
                'violations': viol, 'note': [o['prop'] + ': ' + o['what'] for o in others[:3]]}
