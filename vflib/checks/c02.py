"""C02 - no history of snapshot/delete/clean ever damages a remaining snapshot."""
import asyncio
import random

from .. import gen
from ..harness import CheckBase


class Check(CheckBase):
    property_id = 'C02'
    evaluations_counter = 'histories'
    level = 'exploration'
    rule = ('histories of 6-40 operations {snapshot, repeat snapshot, delete subset of own, clean, concurrent group of '
            'snapshots+restore (in one process, and as separate processes over one Local directory)} by 1-5 users whose keys are owner/shared/shared-of-shared/clone/independent (or one '
            'unencrypted family) over one instrumented store, file sets drawn from a pool with heavy overlap; oracles: '
            '(online, at the instant of each backend mutation) no delete of a chunk referenced by a present snapshot '
            'object, no overwrite of a chunk with different plaintext; (after every operation) independent reader '
            'restores every remaining snapshot and compares with the captured contents; (sampled + at the end) real '
            'restore with the owner key. class = (key-graph class, encrypted?, backend flavour, chunker, deleted-a-snapshot-'
            'sharing-chunks-with-a-survivor?)')
    assumptions = ['destructive commands are not run concurrently with other commands (README)',
                   'vflib/refimpl.py decodes the format correctly (cross-checked by C14)']
    case_timeout = 300
    PROPS = ('C02',)
    MIX = {'snap': 5, 'repeat': 2, 'del': 3, 'clean': 2, 'group': 2, 'gclean': 1, 'gdel': 1, 'churn': 1}
    AUDITS = {'integrity', 'restore', 'foreign'}

    def generate(self):
        n = 48 if self.tier == 'quick' else 4500
        cases = []
        for i in range(n):
            r = random.Random(f'{self.property_id}/{self.seed}/{i}')
            enc = (i % 4) != 3
            cases.append({
                'seed': r.randrange(1 << 30),
                'settings': gen.gen_settings(r, encrypted=enc,
                                             chunker=r.choice([(8, 64), (4, 64), (16, 257), (4, 4), (5, 10), (12, 12)])),
                'flavour': 'async' if i % 2 else 'sync',
                'nops': r.randint(6, 14) if self.tier == 'quick' else r.randint(6, 40),
                'concurrent': r.choice([1, 2, 3, 5]),
                'reuse_repos': i % 2 == 1 or i % 8 == 0,
                # the snapshot cache persists between the commands of a user (the CLI default) or is off
                'cache': [None, 'per-user', 'shared'][i % 3],
            })
        # non-destructive commands overlapping in time from SEVERAL PROCESSES over one local repository directory
        for i in range(4 if self.tier == 'quick' else 120):
            r = random.Random(f'{self.property_id}/{self.seed}/xp/{i}')
            cases.append({'kind': 'xproc-group', 'seed': r.randrange(1 << 30),
                          'settings': gen.gen_settings(r, encrypted=i % 2 == 0, chunker=r.choice([(8, 64), (64, 1024)])),
                          'nproc': r.choice([2, 3, 4]), 'timeout': 400})
        return cases

    def worker_setup(self):
        from .. import hist  # noqa: F401

    def floors(self, agg):
        c = agg['counters']
        q = self.tier == 'quick'
        unmet = []
        if c.get('chunk_deletes_checked', 0) < (200 if q else 5000):
            unmet.append(f'delete events checked online {c.get("chunk_deletes_checked", 0)} below floor')
        if c.get('histories_with_shared_delete', 0) < (15 if q else 300):
            unmet.append(f'histories deleting a snapshot that shares chunks with a survivor: '
                         f'{c.get("histories_with_shared_delete", 0)} below floor')
        if c.get('snapshots_restored', 0) < (40 if q else 1000):
            unmet.append('too few real restores')
        if c.get('gc_with_garbled_snapshot_read', 0) < (15 if q else 300):
            unmet.append('too few delete/clean runs with a garbled snapshot read')
        if c.get('histories_long_lived_repo', 0) < (10 if q else 300):
            unmet.append('too few histories with long-lived Repository objects')
        if c.get('xproc_groups', 0) < (6 if q else 100):
            unmet.append('too few groups of overlapping commands from several processes')
        return unmet

    def _xproc_group(self, case):
        """Rounds of concurrent `snapshot` processes (plus a `restore` and a `list` process) on one Local directory,
        then an audit by the independent reader and a real restore of every snapshot."""
        import json
        import os
        import shutil
        import subprocess
        import tempfile
        from .. import paths, refimpl, rep
        r = random.Random(case['seed'])
        scratch = tempfile.mkdtemp(prefix='vf-c02x-', dir=paths.scratch_root())
        counters, violations = {'xproc_groups': 0}, []
        try:
            repo, keyf = os.path.join(scratch, 'repo'), os.path.join(scratch, 'key')
            mx = case['settings']['chunking']['max_length']
            shared = r.randbytes(9 * mx + 3)

            def spec(i, **kw):
                src = os.path.join(scratch, f'src{i}')
                return dict({'repo': repo, 'key': keyf, 'src': src, 'settings': case['settings'], 'concurrent': r.choice([1, 3]),
                             'target': os.path.join(scratch, f'target{i}')}, **kw)

            def launch(action, sp):
                return subprocess.Popen([paths.PYTHON, '-m', 'vflib.xproc', action, json.dumps(sp)], stdout=subprocess.PIPE,
                                        stderr=subprocess.PIPE, text=True, cwd=str(paths.VERIF))
            truth = {}
            p0 = launch('init', spec(0))
            p0.communicate(timeout=120)
            serial = 0
            for rnd in range(3):
                procs = []
                for k in range(case['nproc']):
                    serial += 1
                    sp = spec(serial)
                    os.makedirs(sp['src'])
                    files = {'shared': shared, f'own{serial}': r.randbytes(r.randint(1, 6 * mx)), 'again': r.randbytes(3) * 50}
                    for nm, data in files.items():
                        with open(os.path.join(sp['src'], nm), 'wb') as f:
                            f.write(data)
                    procs.append(('snapshot', sp, launch('snapshot', sp), files))
                if truth:
                    procs.append(('restore', None, launch('restore', spec(900 + rnd)), None))
                    procs.append(('list', None, launch('list', spec(950 + rnd)), None))
                for action, sp, p, files in procs:
                    out, err = p.communicate(timeout=200)
                    try:
                        res = json.loads(out.strip().splitlines()[-1])
                    except Exception:
                        res = {'ok': False, 'error': err[-300:]}
                    if not res.get('ok'):
                        violations.append({'what': f'{action} failed while overlapping with other non-destructive commands of other '
                                                   f'processes: {res.get("error")}', 'mechanism': None,
                                           'witness': {'round': rnd, 'trace': res.get('trace')}})
                    elif action == 'snapshot':
                        truth[res['name']] = {os.path.realpath(os.path.join(sp['src'], nm)): d for nm, d in files.items()}
                counters['xproc_groups'] += 1
            key = open(keyf, 'rb').read() if os.path.exists(keyf) else None
            objects = {os.path.relpath(os.path.join(dp, f), repo): open(os.path.join(dp, f), 'rb').read()
                       for dp, _, fs in os.walk(repo) for f in fs if not f.endswith('.tmp')}
            ref = refimpl.Ref(objects['config'], key, rep.PASSWORD)
            refd, snaps = refimpl.referenced_locations(ref, objects)
            have = {n for n in objects if n.startswith('data/')}
            if refd - have:
                violations.append({'what': 'chunks referenced by a snapshot are missing after concurrent snapshots from several processes',
                                   'mechanism': None, 'witness': {'missing': sorted(refd - have)[:3]}})
            for loc, dec in snaps.items():
                name = loc.rpartition('-')[2]
                want = truth.get(name)
                if want is None:
                    continue
                for f in dec['data']['files']:
                    got = ref.restore_file(f, dec['chunks'], objects.__getitem__)
                    counters['files_ref_restored'] = counters.get('files_ref_restored', 0) + 1
                    if got != want.get(f['path']):
                        violations.append({'what': 'a snapshot taken concurrently with others does not restore to its source',
                                           'mechanism': None, 'witness': {'snapshot': name[:12], 'path': f['path']}})
                        break
            if len(snaps) != len(truth):
                violations.append({'what': f'{len(truth)} snapshots were reported taken, {len(snaps)} are listed', 'mechanism': None, 'witness': {}})
            counters['snapshots'] = len(truth)
        except subprocess.TimeoutExpired:
            return {'verdict': 'inconclusive', 'note': 'child watchdog', 'classes': [], 'counters': counters}
        finally:
            shutil.rmtree(scratch, ignore_errors=True)
        return {'verdict': 'violated' if violations else 'held',
                'classes': [f"xproc-group|{'enc' if case['settings'].get('encryption') else 'plain'}|p{case['nproc']}"],
                'counters': counters, 'violations': violations[:3]}

    def run_case(self, case):
        if case.get('kind') == 'xproc-group':
            return self._xproc_group(case)
        from .. import hist
        r = random.Random(case['seed'])
        enc = case['settings'].get('encryption') is not None
        graph = hist.gen_graph(r, enc)
        world = hist.World(case['seed'], case['settings'], case['flavour'], case['concurrent'], graph,
                           reuse_repos=case.get('reuse_repos', False), cache=case.get('cache'))

        async def go():
            await world.setup()
            world.plant_foreign()
            await hist.run_history(world, case['nops'], self.MIX, self.AUDITS, r)
            # final: every remaining snapshot restores with its owner key
            for name in sorted(world.snaps)[:6]:
                await world.restore_check(name)
        try:
            asyncio.run(go())
        except Exception as e:
            import traceback
            world.finding('C02', f'history aborted by {type(e).__name__}: {e}', trace=traceback.format_exc()[-2000:])
        finally:
            world.close()
        counters = dict(world.counters)
        counters['histories'] = 1
        if case.get('reuse_repos'):
            counters['histories_long_lived_repo'] = 1
        if counters.get('deletes_sharing_chunks_with_survivor'):
            counters['histories_with_shared_delete'] = 1
        mine = world.take_findings(self.PROPS)
        others = [f for f in world.findings if f['prop'] not in self.PROPS]
        counters['findings_for_other_properties'] = len(others)
        cls = [f"{hist.graph_class(graph)}|{'enc' if enc else 'plain'}|{case['flavour']}|"
               f"{case['settings']['chunking']['max_length']}|shared-del={bool(counters.get('deletes_sharing_chunks_with_survivor'))}"
               f"|{'long-lived' if case.get('reuse_repos') else 'per-command'}-repo|cache={case.get('cache')}"]
        viol = [{'what': f['what'], 'mechanism': None, 'witness': dict(f['witness'], graph=graph, settings=case['settings'])}
                for f in mine[:4]]
        return {'verdict': 'violated' if viol else 'held', 'classes': cls, 'counters': counters, 'violations': viol,
                'note': [o['prop'] + ': ' + o['what'] for o in others[:3]]}
