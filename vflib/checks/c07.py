"""C07 - identical data is stored once."""
import asyncio
import json
import os
import random
import shutil
import subprocess
import sys
import tempfile

from .. import gen, paths
from ..harness import CheckBase


class Check(CheckBase):
    property_id = 'C07'
    evaluations_counter = 'histories'
    level = 'exploration'
    rule = ('(a) crash-free histories {snapshot, repeat snapshot of unchanged data by the same or a same-family user, '
            'delete, clean, concurrent snapshot groups} over file sets with identical files / shared prefixes and suffixes '
            '(aligned and unaligned) / a block repeated inside a file; after every operation the chunk objects of each key '
            'family must equal, as a set of names, the chunk locations referenced by the snapshot objects of that family '
            '(independent reader), a repeat snapshot must cause zero payload-carrying backend events, no user may write into '
            'a chunk location of another family, and independent families given identical data must produce disjoint names; '
            '(b) cross-process: init + snapshot in one interpreter, repeat snapshot of the same tree in a second interpreter '
            'with a different PYTHONHASHSEED over a Local directory - no chunk file may be created or replaced (inode+mtime); '
            '(c) command-line life cycles: the same data snapshotted through `python -m replicat` with keys from add-key --shared / --clone '
            'adds no chunk object, with an independent key only objects the owner family does not recognise. '
            'class = (key-graph class, encrypted?, flavour, chunker, concurrency) / (xproc, settings class)')
    assumptions = ['histories are crash-free (property text); interrupted runs are the subject of C03/C08',
                   'vflib/refimpl.py decodes the format correctly (cross-checked by C14)']
    case_timeout = 300
    PROPS = ('C07',)
    MIX = {'snap': 4, 'repeat': 4, 'del': 2, 'clean': 1, 'group': 2, 'churn': 1}
    AUDITS = {'sets'}

    def generate(self):
        quick = self.tier == 'quick'
        n = 64 if quick else 4500
        cases = []
        for i in range(n):
            r = random.Random(f'C07/{self.seed}/{i}')
            enc = (i % 4) != 3
            cases.append({
                'kind': 'history',
                'seed': r.randrange(1 << 30),
                'settings': gen.gen_settings(r, encrypted=enc,
                                             chunker=r.choice([(8, 64), (4, 64), (16, 257), (4, 4), (5, 10), (12, 12), (3, 9)])),
                'flavour': 'async' if i % 2 else 'sync',
                'nops': r.randint(8, 16) if quick else r.randint(8, 40),
                'concurrent': r.choice([1, 2, 5, 16]),
                'reuse_repos': i % 2 == 0,
            })
        for i in range(6 if quick else 60):
            r = random.Random(f'C07/{self.seed}/x/{i}')
            cases.append({'kind': 'xproc', 'seed': r.randrange(1 << 30),
                          'settings': gen.gen_settings(r, encrypted=i % 3 != 2, chunker=r.choice([(8, 64), (16, 257), (5, 10)])),
                          'concurrent': r.choice([1, 3, 8])})
        for i in range(8 if quick else 240):
            cases.insert(i, {'kind': 'cli', 'seed': random.Random(f'C07/{self.seed}/cli/{i}').randrange(1 << 30), 'timeout': 900})
        return cases

    def worker_setup(self):
        from .. import hist  # noqa: F401

    def floors(self, agg):
        c = agg['counters']
        q = self.tier == 'quick'
        unmet = []
        if c.get('repeat_snapshots', 0) < (50 if q else 1000):
            unmet.append(f'repeat snapshots {c.get("repeat_snapshots", 0)} below floor')
        if c.get('repeat_by_shared_user', 0) < (20 if q else 300):
            unmet.append(f'repeat snapshots by a shared-key user {c.get("repeat_by_shared_user", 0)} below floor')
        if c.get('chunk_set_audits', 0) < (300 if q else 5000):
            unmet.append('too few chunk-set audits')
        if c.get('xproc_repeats', 0) < (4 if q else 40):
            unmet.append('too few cross-process repeat snapshots')
        if c.get('independent_pairs_checked', 0) < (5 if q else 100):
            unmet.append('too few independent-family pairs compared')
        return unmet

    def run_case(self, case):
        if case['kind'] == 'xproc':
            return self._xproc(case)
        if case['kind'] == 'cli':
            from .. import cliflow
            return cliflow.run_case(case['seed'], 'storage')
        from .. import hist
        r = random.Random(case['seed'])
        enc = case['settings'].get('encryption') is not None
        graph = hist.gen_graph(r, enc)
        if enc and r.random() < 0.5 and 'independent' not in graph:
            graph.append('independent')
        world = hist.World(case['seed'], case['settings'], case['flavour'], case['concurrent'], graph,
                           reuse_repos=case.get('reuse_repos', False))

        async def go():
            await world.setup()
            await hist.run_history(world, case['nops'], self.MIX, self.AUDITS, r)
            await self._independent_pairs(world, r)
        try:
            asyncio.run(go())
        except Exception as e:
            import traceback
            world.finding('C07', f'history aborted by {type(e).__name__}: {e}', trace=traceback.format_exc()[-2000:])
        finally:
            world.close()
        counters = dict(world.counters)
        counters['histories'] = 1
        mine = world.take_findings(self.PROPS)
        others = [f for f in world.findings if f['prop'] not in self.PROPS]
        counters['findings_for_other_properties'] = len(others)
        cls = [f"{hist.graph_class(graph)}|{'enc' if enc else 'plain'}|{case['flavour']}|"
               f"{case['settings']['chunking']['max_length']}|c{case['concurrent']}"]
        viol = [{'what': f['what'], 'mechanism': None, 'witness': dict(f['witness'], graph=graph, settings=case['settings'])}
                for f in mine[:4]]
        return {'verdict': 'violated' if viol else 'held', 'classes': cls, 'counters': counters, 'violations': viol,
                'note': [o['prop'] + ': ' + o['what'] for o in others[:3]]}

    async def _independent_pairs(self, world, r):
        """Users of different key families snapshot identical data: their object names must be disjoint, and a user
        must not have skipped uploads because the other family's objects exist."""
        from .. import hist
        fams = {}
        for u in sorted(world.users):
            fams.setdefault(world.users[u].family, u)
        if len(fams) < 2:
            return
        mx = world.settings['chunking']['max_length']
        data = {'same/a': r.randbytes(7 * mx + 3), 'same/b': bytes(3 * mx), 'same/c': r.randbytes(5)}
        locs = {}
        # half of the time ONE Repository object is re-unlocked with each key in turn (library use)
        from .. import rep
        one_object = rep.new_repo(world.backend('switcher'), world.concurrent) if r.random() < 0.5 else None
        for fam, u in fams.items():
            if one_object is not None:
                with rep.capture():
                    await one_object.unlock(password=world.users[u].password, key=world.users[u].key)
                world.count('key_switches_on_one_object')
            rec = await world.snapshot(u, data, repo=one_object)
            ref = world.users[u].ref
            locs[fam] = {ref.chunk_loc(d) for d in rec.digests}
            missing = [l for l in locs[fam] if l not in world.store.objects]
            if missing:
                world.finding('C07', f'chunks referenced by a new snapshot of {u} are not stored (aliasing across families?)',
                              missing=missing[:3])
        names = sorted(locs)
        for i in range(len(names)):
            for j in range(i + 1, len(names)):
                world.count('independent_pairs_checked')
                common = locs[names[i]] & locs[names[j]]
                if common:
                    world.finding('C07', f'independent key families {names[i]} and {names[j]} share {len(common)} object name(s) '
                                         f'for identical data', names=sorted(common)[:3])
        world.audit_chunk_sets('C07')

    # -------------------------------------------------------------------------------------------------
    def _xproc(self, case):
        scratch = tempfile.mkdtemp(prefix='vf-c07x-', dir=paths.scratch_root())
        try:
            r = random.Random(case['seed'])
            mx = case['settings']['chunking']['max_length']
            src = os.path.join(scratch, 'src')
            os.makedirs(os.path.join(src, 'd'))
            blk = r.randbytes(2 * mx)
            files = {'a': r.randbytes(9 * mx + 1), 'b': blk * 4, 'd/c': r.randbytes(3 * mx) + blk, 'd/e': b'', 'f': bytes(4 * mx)}
            for rel, data in files.items():
                with open(os.path.join(src, rel), 'wb') as f:
                    f.write(data)
            repo = os.path.join(scratch, 'repo')
            spec = {'repo': repo, 'src': src, 'settings': case['settings'], 'concurrent': case['concurrent'],
                    'key': os.path.join(scratch, 'key')}

            def child(action, hashseed):
                env = dict(os.environ, PYTHONHASHSEED=str(hashseed))
                p = subprocess.run([paths.PYTHON, '-m', 'vflib.xproc', action, json.dumps(spec)], env=env,
                                   capture_output=True, text=True, timeout=120, cwd=str(paths.VERIF))
                if p.returncode != 0:
                    raise RuntimeError(f'child {action} failed: {p.stderr[-1500:]}')
                return json.loads(p.stdout.strip().splitlines()[-1])

            def image():
                out = {}
                for dp, _, fns in os.walk(os.path.join(repo, 'data')):
                    for fn in fns:
                        st = os.stat(os.path.join(dp, fn))
                        out[os.path.relpath(os.path.join(dp, fn), repo)] = (st.st_ino, st.st_mtime_ns, st.st_size)
                return out

            first = child('init+snapshot', 11)
            before = image()
            second = child('snapshot', 12345)
            after = image()
            violations = []
            if first['chunks'] != second['chunks']:
                violations.append({'what': 'the same tree gives a different chunk table in a second process '
                                           '(chunking or hashing not a pure function of content and key)', 'mechanism': None,
                                   'witness': {'first': len(first['chunks']), 'second': len(second['chunks'])}})
            if before != after:
                new = sorted(set(after) - set(before))
                replaced = sorted(k for k in before if k in after and before[k] != after[k])
                violations.append({'what': f'repeat snapshot from a second process created {len(new)} and replaced '
                                           f'{len(replaced)} chunk object(s)', 'mechanism': None,
                                   'witness': {'new': new[:3], 'replaced': replaced[:3], 'settings': case['settings']}})
            if not before:
                return {'verdict': 'inconclusive', 'note': 'no chunk objects written', 'classes': [], 'counters': {}}
            return {'verdict': 'violated' if violations else 'held',
                    'classes': [f'xproc|{gen.settings_class(case["settings"])}'],
                    'counters': {'xproc_repeats': 1, 'xproc_chunk_files_watched': len(before)}, 'violations': violations}
        finally:
            shutil.rmtree(scratch, ignore_errors=True)
