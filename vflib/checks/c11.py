"""C11 - chunk boundaries are content-defined and re-synchronise after edits."""
import asyncio
import os
import random
import shutil
import tempfile
from pathlib import Path

from .. import paths
from ..harness import CheckBase

RESYNC_FACTOR = 1024      # D = 1024 * max, see DESIGN.md appendix A


def boundaries(chunks):
    out, p = [], 0
    for c in chunks:
        p += len(c)
        out.append(p)
    return out


class Check(CheckBase):
    property_id = 'C11'
    evaluations_counter = 'pairs'
    level = 'exploration'
    rule = ('pairs of related streams run through the real adapter over the freshly compiled chunker: '
            '(suffix) P1+S vs P2+S with aligned random prefixes; (edit) X vs X with an aligned '
            'insert/delete/replace at a position chosen relative to an existing boundary; (key) same data, '
            'independent keys; (repo) one file snapshotted behind two different predecessors through '
            'Repository.snapshot. Oracle: from the first common boundary on, boundaries are equal up to the '
            'tail zone; a common boundary exists within D=1024*max of the end of the edit (failure probability '
            '< 1e-28 for random data, min<=max/16); independent keys give different boundary sets; interior '
            'chunks of the file are shared between the two snapshots. class = (kind, max, edit kind, position class)')
    assumptions = ['re-synchronisation distance is judged on high-entropy data only (property text)',
                   'neighbouring hash values treated as independent in the bound (appendix A); observed distances are reported']
    case_timeout = 300

    def generate(self):
        quick = self.tier == 'quick'
        cases = []
        n = 40 if quick else 1200
        for i in range(n):
            r = random.Random(f'C11/{self.seed}/{i}')
            mx = [64, 128, 256][i % 3]
            mn = r.choice([1, 4, mx // 16, mx // 32 or 1, 3, 5, 7, mx // 16 - 1, mx // 16 - 3])
            cases.append({'kind': 'streams', 'min': mn, 'max': mx, 'seed': r.randrange(1 << 30),
                          'pairs': 16})
        # parameters above the built-in defaults (max_length 5 120 000): a few whole-stream feeds of 12 maximum lengths
        for i in range(1 if quick else 8):
            r = random.Random(f'C11/{self.seed}/large/{i}')
            mx = r.choice([6_000_000, 5_200_000, 8_000_000])
            cases.insert(0, {'kind': 'streams', 'min': r.choice([128_000, mx // 64 // 4 * 4, 4096]), 'max': mx,
                             'seed': r.randrange(1 << 30), 'pairs': 3, 'slen': 12 * mx, 'large': True, 'timeout': 900})
        for i in range(6 if quick else 120):
            r = random.Random(f'C11/{self.seed}/repo/{i}')
            cases.append({'kind': 'repo', 'min': r.choice([4, 8]), 'max': r.choice([64, 128]),
                          'seed': r.randrange(1 << 30), 'encrypted': i % 2 == 0})
        return cases

    def worker_setup(self):
        from .. import rep  # noqa: F401
        from replicat.utils import adapters
        self.adapters = adapters

    def floors(self, agg):
        c = agg['counters']
        unmet = []
        if c.get('pairs', 0) < (500 if self.tier == 'quick' else 5000):
            unmet.append(f'pairs checked {c.get("pairs", 0)} below floor')
        for k in ('suffix_pairs', 'edit_pairs', 'key_pairs', 'repo_pairs', 'segmented_streams', 'grid_checked_streams',
                  'key_bit_neighbours', 'large_parameter_streams'):
            if c.get(k, 0) == 0:
                unmet.append(f'{k} = 0')
        return unmet

    def _bounds(self, mn, mx, data, key, pieces=None):
        ch = self.adapters.gclmulchunker(min_length=mn, max_length=mx)
        out = boundaries(list(ch(iter(pieces if pieces is not None else [data]), params=key)))
        self._grid_calls += 1
        # candidate grid: outside the tail zone every boundary is a multiple of the alignment, otherwise equal
        # data behind different (aligned) predecessors would be examined at different offsets
        off = [b for b in out if b <= len(data) - 2 * mx and b % 4]
        if off:
            self._grid_violations.append({'first_unaligned_boundary': off[0], 'count': len(off), 'min': mn, 'max': mx})
        return out

    @staticmethod
    def _pieces(r, parts, mx):
        """Hand a stream over the way Repository does: part by part (files, paddings), each part possibly in
        several reads, with empty pieces in between."""
        out = []
        for part in parts:
            if r.random() < 0.3:
                out.append(b'')
            if len(part) > 4 * mx and r.random() < 0.7:
                cut = r.randrange(len(part))
                out += [part[:cut], b'', part[cut:]] if r.random() < 0.5 else [part[:cut], part[cut:]]
            else:
                out.append(part)
        if r.random() < 0.3:
            out.append(b'')
        return out

    def run_case(self, case):
        return self._streams(case) if case['kind'] == 'streams' else self._repo(case)

    @staticmethod
    def _compare_from_common(b1, off1, b2, off2, slen, mx, after=0):
        """Boundaries in S coordinates; returns (first common boundary >= after or None, mismatch or None)."""
        T = slen - 2 * mx
        s1 = [b - off1 for b in b1 if b - off1 >= 0]
        s2 = [b - off2 for b in b2 if b - off2 >= 0]
        set2 = set(s2)
        common = next((b for b in s1 if b >= after and b in set2), None)
        if common is None:
            return None, None
        i1, i2 = s1.index(common), s2.index(common)
        while i1 < len(s1) and i2 < len(s2):
            if s1[i1] != s2[i2]:
                return common, (s1[max(0, i1 - 2):i1 + 3], s2[max(0, i2 - 2):i2 + 3])
            if s1[i1] >= T:          # the chunk starting here is inside the tail zone
                break
            i1 += 1
            i2 += 1
        return common, None

    def _streams(self, case):
        mn, mx = case['min'], case['max']
        r = random.Random(case['seed'])
        counters = {'pairs': 0, 'suffix_pairs': 0, 'edit_pairs': 0, 'key_pairs': 0, 'max_resync_in_max_units': 0}
        classes, violations = set(), []
        D = RESYNC_FACTOR * mx
        key = r.randbytes(16)
        if key[:8] == bytes(8):
            key = b'\x01' + key[1:]
        slen = case.get('slen') or r.randrange(35_000, 75_000) * 4
        self._grid_violations, self._grid_calls = [], 0
        for pi in range(case['pairs']):
            S = r.randbytes(slen)
            mode = pi % 4 if not case.get('large') else (0, 1, 2)[pi % 3]
            ident = {'min': mn, 'max': mx, 'key': key.hex(), 'seed': case['seed'], 'pair': pi}
            if mode == 0:                                   # shared suffix, different prefixes
                l1, l2 = r.choice([0, 4, 8, mx, 3 * mx - 4]) // 4 * 4, r.randrange(0, 3 * mx) // 4 * 4
                P1, P2 = r.randbytes(l1), r.randbytes(l2)
                seg = pi % 8 >= 4
                b1 = self._bounds(mn, mx, P1 + S, key, self._pieces(r, [P1, S], mx) if seg else None)
                b2 = self._bounds(mn, mx, P2 + S, key, self._pieces(r, [P2, S], mx) if seg else None)
                if seg:
                    counters['segmented_streams'] = counters.get('segmented_streams', 0) + 2
                common, mism = self._compare_from_common(b1, l1, b2, l2, slen, mx)
                counters['suffix_pairs'] += 1
                classes.add(f'suffix|{mx}|p{min(l1, 1)}{min(l2, 1)}')
                if mism:
                    violations.append({'what': 'streams sharing a suffix disagree on a boundary after a common boundary',
                                       'mechanism': None, 'witness': dict(ident, prefixes=(l1, l2), common=common, around=mism)})
                if common is None or common > D:
                    violations.append({'what': f'no common boundary within D={D} of the start of the shared suffix',
                                       'mechanism': None, 'witness': dict(ident, prefixes=(l1, l2), common=common)})
                elif common is not None:
                    counters['max_resync_in_max_units'] = max(counters['max_resync_in_max_units'], common // mx)
            elif mode in (1, 2):                            # aligned local edit
                base = self._bounds(mn, mx, S, key)
                anchor = base[r.randrange(len(base) // 4, len(base) // 2)]
                rel = r.choice(['on', '+4', '-4', 'mid'])
                pos = {'on': anchor, '+4': anchor + 4, '-4': anchor - 4, 'mid': anchor + (mx // 2) // 4 * 4}[rel]
                ek = r.choice(['insert', 'delete', 'replace'])
                elen = r.choice([4, 8, mx, 4 * mx, r.randrange(1, mx) * 4])
                if ek == 'insert':
                    X2, off2, off1 = S[:pos] + r.randbytes(elen) + S[pos:], pos + elen, pos
                elif ek == 'delete':
                    X2, off2, off1 = S[:pos] + S[pos + elen:], pos, pos + elen
                else:
                    rep_bytes = bytes(b ^ 0xFF for b in S[pos:pos + elen])
                    X2, off2, off1 = S[:pos] + rep_bytes + S[pos + elen:], pos + elen, pos + elen
                b2 = self._bounds(mn, mx, X2, key)
                suffix_len = len(S) - off1
                common, mism = self._compare_from_common(base, off1, b2, off2, suffix_len, mx)
                counters['edit_pairs'] += 1
                classes.add(f'edit|{mx}|{ek}|{rel}|{"big" if elen >= mx else "small"}')
                if mism:
                    violations.append({'what': 'after an aligned edit the boundaries disagree again after having re-joined',
                                       'mechanism': None, 'witness': dict(ident, edit=(ek, pos, elen), common=common, around=mism)})
                if mn <= mx // 16:
                    if common is None or common > D:
                        violations.append({'what': f'boundaries did not re-synchronise within D={D} bytes after the edit',
                                           'mechanism': None, 'witness': dict(ident, edit=(ek, pos, elen), common=common)})
                    else:
                        counters['max_resync_in_max_units'] = max(counters['max_resync_in_max_units'], common // mx)
                # chunks before the edit window are untouched as well
                head1 = [b for b in base if b <= pos - 2 * mx]
                head2 = [b for b in b2 if b <= pos - 2 * mx]
                if head1 != head2:
                    violations.append({'what': 'boundaries before the edit changed', 'mechanism': None,
                                       'witness': dict(ident, edit=(ek, pos, elen))})
            else:                                            # different keys
                # independent keys; keys that differ only in the multiplier half (one byte of k0); keys that
                # differ only in the most significant byte of the mask half.  (Low mask bytes do not influence the
                # order of hash values on the pinned code either and are not generated - stated limit.)
                kmode = ['independent', 'k0-byte', 'mask-top-byte'][(pi // 4) % 3]
                if kmode == 'independent':
                    k2 = r.randbytes(16)
                else:
                    k2 = bytearray(key)
                    pos = r.randrange(8) if kmode == 'k0-byte' else 15
                    k2[pos] ^= 1 << r.randrange(8)
                    k2 = bytes(k2)
                    if k2[:8] == bytes(8):
                        k2 = r.randbytes(16)
                b1, b2 = self._bounds(mn, mx, S, key), self._bounds(mn, mx, S, k2)
                counters['key_pairs'] += 1
                classes.add(f'keys|{mx}|{kmode}')
                if b1 == b2:
                    violations.append({'what': f'two different chunker keys ({kmode}) produce identical boundaries on random data',
                                       'mechanism': None, 'witness': dict(ident, key2=k2.hex(), nbounds=len(b1))})
            counters['pairs'] += 1
            if len(violations) > 3:
                break
        if not case.get('large') and not violations:
            # every bit of the multiplier half of the key matters: 64 single-bit neighbours of the key on one short stream
            S = r.randbytes(16 * 1024 * 4)
            b1 = self._bounds(mn, mx, S, key)
            for bit in range(64):
                k2 = bytearray(key)
                k2[bit // 8] ^= 1 << (bit % 8)
                if bytes(k2[:8]) == bytes(8):
                    continue
                counters['key_bit_neighbours'] = counters.get('key_bit_neighbours', 0) + 1
                if self._bounds(mn, mx, S, bytes(k2)) == b1:
                    violations.append({'what': f'chunker keys that differ in bit {bit % 8} of byte {bit // 8} (multiplier half) produce identical '
                                               f'boundaries on {len(S)} random bytes ({len(b1)} boundaries)', 'mechanism': None,
                                       'witness': {'min': mn, 'max': mx, 'key': key.hex(), 'bit': bit, 'seed': case['seed']}})
                    break
            classes.add(f'keybits|{mx}')
        if case.get('large'):
            counters['large_parameter_streams'] = counters.get('large_parameter_streams', 0) + self._grid_calls
            classes.add(f'large|{mx}')
        counters['grid_checked_streams'] = self._grid_calls
        if self._grid_violations:
            violations.append({'what': 'a boundary outside the tail zone is not a multiple of the alignment: equal data behind '
                                       'different aligned predecessors is examined on different candidate grids',
                               'mechanism': None, 'witness': dict(self._grid_violations[0], key=key.hex(), seed=case['seed'])})
        classes.add(f'min%4={mn % 4}|{mx}')
        return {'verdict': 'violated' if violations else 'held', 'classes': sorted(classes), 'counters': counters,
                'violations': violations[:3]}

    def _repo(self, case):
        from .. import rep, membackend, refimpl
        mn, mx = case['min'], case['max']
        r = random.Random(case['seed'])
        D = RESYNC_FACTOR * mx
        scratch = tempfile.mkdtemp(prefix='vf-c11-', dir=paths.scratch_root())
        try:
            big = r.randbytes(D + 40 * mx + r.randrange(0, 4 * mx))
            preds = [r.randbytes(r.choice([1, 2, 3, 5, 7, 9, 13, mx + 1, mx + 2, 3 * mx + 3])),
                     r.randbytes(r.choice([6, 10, 11, 17, 4 * mx + 1, 2 * mx + 7]))]
            dirs = []
            # a predecessor whose reported size differs from what can be read (procfs): the padding behind it must follow
            # the bytes actually streamed
            procfile = '/proc/version'
            use_proc = False
            try:
                use_proc = case['seed'] % 3 == 0 and os.stat(procfile).st_size == 0 and len(Path(procfile).read_bytes()) % 4 != 0
            except OSError:
                pass
            for i, p in enumerate(preds):
                d = os.path.join(scratch, f's{i}')
                os.makedirs(d)
                if use_proc and i == 1:
                    os.symlink(procfile, os.path.join(d, 'a-pred'))
                    dirs.append(d)
                    Path(d, 'z-big').write_bytes(big)
                    continue
                Path(d, 'a-pred').write_bytes(p)
                Path(d, 'z-big').write_bytes(big)
                dirs.append(d)
            settings = {'hashing': {'name': 'blake2b', 'length': 32},
                        'chunking': {'min_length': mn, 'max_length': mx},
                        'encryption': ({'cipher': {'name': 'chacha20_poly1305'}, 'kdf': {'name': 'scrypt', 'n': 4}}
                                       if case['encrypted'] else None)}
            store = membackend.Store(case['seed'])
            backend = membackend.make_backend(store, 'sync')

            async def go():
                _, key, _ = await rep.init(backend, settings)
                out = []
                for d in dirs:
                    repo = await rep.unlocked(backend, key, concurrent=3)
                    with rep.capture():
                        out.append(await repo.snapshot(paths=[Path(d)]))
                return key, out
            key, snaps = asyncio.run(go())
            ref = refimpl.Ref(store.objects['config'], key, rep.PASSWORD)
            # chunks of snapshot 0 that lie fully inside big[D : len - 2max]
            f0 = next(f for f in snaps[0].data['files'] if f['path'].endswith('z-big'))
            refs = sorted(f0['chunks'], key=lambda c: c['counter'])
            pos, interior = 0, []
            objs = store.snapshot_objects()
            for c in refs:
                a, b = c['range']
                digest = snaps[0].chunks[c['index']]
                plain_len = len(ref.decode_chunk(objs[ref.chunk_loc(digest)], digest))
                whole = (a == 0 and b == plain_len)
                if whole and pos >= D and pos + (b - a) <= len(big) - 2 * mx:
                    interior.append(digest)
                pos += b - a
            table1 = set(snaps[1].chunks)
            missing = [d for d in interior if d not in table1]
            total_shared = len(set(snaps[0].chunks) & table1)
            violations = []
            if pos != len(big):
                violations.append({'what': 'ranges of the big file do not add up to its size', 'mechanism': None, 'witness': {}})
            if not interior:
                return {'verdict': 'inconclusive', 'note': 'no interior chunks', 'classes': [], 'counters': {}}
            if missing:
                violations.append({'what': f'{len(missing)} of {len(interior)} interior chunks of a file stored behind a different '
                                           f'predecessor are not shared between the two snapshots (beyond D={D} bytes into the file)',
                                   'mechanism': None,
                                   'witness': {'pred_sizes': [len(p) for p in preds], 'min': mn, 'max': mx,
                                               'shared_total': total_shared, 'table_sizes': [len(snaps[0].chunks), len(snaps[1].chunks)]}})
            return {'verdict': 'violated' if violations else 'held',
                    'classes': [f'repo|{mx}|{"enc" if case["encrypted"] else "plain"}|pad{(-len(preds[0])) % 4}{(-len(preds[1])) % 4}'],
                    'counters': {'pairs': 1, 'repo_pairs': 1, 'interior_chunks': len(interior), 'shared_chunks': total_shared},
                    'violations': violations}
        finally:
            shutil.rmtree(scratch, ignore_errors=True)
