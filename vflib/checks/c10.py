"""C10 - the chunker is a lossless, bounded, deterministic function of the stream.

All workers are Python processes started with the ASan runtime preloaded; the working tree's
src/adapters.cpp is loaded twice: as an ASan+UBSan build (every next_cut call gets a private
exact-size heap copy, so the red zone starts right behind the last data byte) and as the
plain -O2 build (guard-page buffers and poisoned tails).  The real Python adapter
(replicat.utils.adapters.gclmulchunker.__call__) drives both.
"""
import os
import random

from .. import native
from .. import paths
from ..harness import CheckBase

PARAM_VALUES = [1, 3, 4, 5, 7, 8, 10, 12, 16, 31, 33, 64, 100, 257, 1000]


def valid_pairs():
    out = []
    for mn in PARAM_VALUES:
        for mx in PARAM_VALUES:
            if mn <= mx and ((mn + 3) & -4) <= mx:
                out.append((mn, mx))
    return out


mx_hint = [64]


def make_data(r, kind, n):
    if kind == 'random':
        return r.randbytes(n)
    if kind == 'const':
        return bytes([r.randrange(256)]) * n
    if kind == 'zeros':
        return bytes(n)
    if kind == 'sparse':
        # a sparse file / disk image: long zero runs between data, run ends anywhere relative to the pieces
        out = bytearray()
        while len(out) < n:
            out += r.randbytes(r.choice([0, 1, 5, r.randint(1, 2 * mx_hint[0])]))
            out += bytes(r.randint(2 * mx_hint[0], 9 * mx_hint[0]))
        return bytes(out[:n])
    blk = r.randbytes(r.choice([1, 2, 3, 4, 5, 8, 12, 17, 64]))
    return (blk * (n // len(blk) + 1))[:n]


def segment(r, data, how, mx):
    n = len(data)
    if how == 'one':
        return [data]
    if how == 'bytes':
        return [data[i:i + 1] for i in range(n)] or [b'']
    if how in ('max-1', 'max', 'max+1'):
        step = max(1, mx + {'max-1': -1, 'max': 0, 'max+1': 1}[how])
        return [data[i:i + step] for i in range(0, n, step)] or [b'']
    if how == 'trailing-empty':
        return [data, b'']
    if how == 'wide':
        pieces, i = [], 0
        while i < n:
            step = r.randint(mx, 6 * mx)
            pieces.append(data[i:i + step])
            i += step
        return pieces or [b'']
    pieces, i = [], 0
    while i < n:
        step = r.choice([0, 0, 1, 2, 3, 4, 5, mx - 1, mx, mx + 1, 2 * mx, r.randint(1, 3 * mx + 1)])
        pieces.append(data[i:i + step])
        i += step
    if r.random() < 0.3:
        pieces.append(b'')
    if r.random() < 0.3:
        pieces.insert(0, b'')
    return pieces or [b'']


SEGMENTATIONS = ['one', 'bytes', 'max-1', 'max', 'max+1', 'random', 'random2', 'trailing-empty', 'wide']


class Check(CheckBase):
    property_id = 'C10'
    evaluations_counter = 'adapter_cases'
    level = 'exploration'
    rule = ('adapter cases = (min,max) over all valid pairs of {1,3,4,5,7,8,10,12,16,31,33,64,100,257,1000} '
            'x stream length (0..6max+7 exhaustive for max<=16, seeded beyond) x content kind x '
            'segmentation x key; each run through the real Python adapter over (a) the ASan+UBSan build '
            'with exact-size heap copies, (b) the plain build with guard-page buffers, (c) poisoned tails '
            '0x00/0xFF/random; pieces handed over in one reused block with the chunks looked at only after the stream is exhausted; '
            'max_length above the built-in default (5.2-8 MB) fed as one piece / 16 MiB feeds / random pieces; '
            'direct cases = next_cut on buffers of every size 0..3max+8 x final; '
            'class = (max mod 4, min(size-max, 9) or tail-zone label, final, segmentation kind)')
    assumptions = ['pybind11 glue replaced by a shim; the chunker class is compiled unmodified',
                   'a clean ASan/UBSan run is absence of reports on the calls made, not memory safety']
    case_timeout = 300

    def setup(self):
        native.build('plain')
        native.build('asan')
        self.worker_env = {k: v for k, v in native.asan_env().items()
                           if k in ('LD_PRELOAD', 'ASAN_OPTIONS', 'UBSAN_OPTIONS')}

    def generate(self):
        pairs = valid_pairs()
        cases = []
        quick = self.tier == 'quick'
        # adapter-level cases, batched (one case = one (min,max) with a batch of streams)
        reps = 1 if quick else 100
        for rep_i in range(reps):
            for (mn, mx) in pairs:
                cases.append({'kind': 'adapter', 'min': mn, 'max': mx,
                              'seed': random.Random(f'C10/{self.seed}/{mn}/{mx}/{rep_i}').randrange(1 << 30),
                              'streams': 14 if quick else 40,
                              'exhaustive_lengths': (mx <= 16 and rep_i == 0)})
        # parameters above the built-in defaults (max_length 5 120 000, feeds of 16 MiB as Repository reads files)
        for i in range(1 if quick else 6):
            rr = random.Random(f'C10/{self.seed}/large/{i}')
            mx = rr.choice([6_000_000, 5_200_000, 8_000_000])
            cases.insert(0, {'kind': 'large', 'min': rr.choice([128_000, 4096, mx // 16 // 4 * 4]), 'max': mx,
                             'seed': rr.randrange(1 << 30), 'timeout': 900})
        # the adapter under an interpreter that strips assert statements (python -O / PYTHONOPTIMIZE): same function
        for i in range(2 if quick else 8):
            cases.insert(0, {'kind': 'optimised', 'how': ['-O', 'env'][i % 2], 'seed': i, 'timeout': 300})
        for (mn, mx) in pairs:
            if mx <= 257 or not quick:
                cases.append({'kind': 'direct', 'min': mn, 'max': mx,
                              'seed': random.Random(f'C10/{self.seed}/d/{mn}/{mx}').randrange(1 << 30)})
        return cases

    def worker_setup(self):
        import sys
        import types
        self.asan = native.Bridge('asan')
        self.asan.mode = 'exact'
        self.plain = native.Bridge('plain')
        mod = types.ModuleType('_replicat_adapters')
        mod._gclmulchunker = self.asan.chunker_class()
        sys.modules['_replicat_adapters'] = mod
        self.mod = mod
        self.cls = {'asan': self.asan.chunker_class(), 'plain': self.plain.chunker_class()}
        from replicat.utils import adapters
        self.adapters = adapters

    def on_worker_death(self, case, returncode, stderr_tail):
        if returncode == 'watchdog':
            return super().on_worker_death(case, returncode, stderr_tail)
        txt = stderr_tail
        marker = 'AddressSanitizer' in txt or 'runtime error' in txt or 'SEGV' in txt or returncode in (66, -11, -6)
        if marker:
            i = txt.find('==ERROR')
            return {'verdict': 'violated', 'classes': [], 'counters': {'sanitizer_reports': 1},
                    'violations': [{'what': 'sanitizer report / memory fault inside next_cut '
                                            f'(min={case.get("min")}, max={case.get("max")}, kind={case.get("kind")}, rc={returncode})',
                                    'mechanism': None,
                                    'witness': {'report': txt[i if i >= 0 else -2500:][:2500]}}]}
        return super().on_worker_death(case, returncode, stderr_tail)

    def floors(self, agg):
        c = agg['counters']
        unmet = []
        need = 100_000 if self.tier == 'quick' else 2_000_000
        if c.get('asan_calls', 0) < need:
            unmet.append(f'sanitized next_cut calls {c.get("asan_calls", 0)} < {need}')
        if c.get('guard_calls', 0) < need // 4:
            unmet.append('too few guard-page calls')
        if c.get('large_parameter_streams', 0) < 3:
            unmet.append('no stream with parameters above the built-in defaults')
        if c.get('shared_adapter_streams', 0) < 500:
            unmet.append('too few streams through a long-lived adapter object')
        for m4 in range(4):
            for fin in (0, 1):
                for d in range(0, 8):
                    if f'direct|m{m4}|d{d}|f{fin}' not in agg['classes']:
                        unmet.append(f'class direct|m{m4}|d{d}|f{fin} not hit')
        return unmet[:6]

    # -------------------------------------------------------------------------------------------
    def _chunks(self, engine, mode, mn, mx, pieces, key, poison=None, adapter=None, reuse=False):
        br = self.asan if engine == 'asan' else self.plain
        br.mode = mode
        if poison is not None:
            br.poison = poison
        self.mod._gclmulchunker = self.cls[engine]
        ch = adapter if adapter is not None else self.adapters.gclmulchunker(min_length=mn, max_length=mx)
        if reuse:
            # the producer hands over every piece in ONE reused block (readinto-style): a piece is only valid until the
            # next one is requested
            block = bytearray(max([len(p) for p in pieces] + [1]))

            def producer():
                for p in pieces:
                    block[:len(p)] = p
                    yield memoryview(block)[:len(p)]
            # chunks are looked at only after the whole stream has been consumed (Repository queues them for its workers):
            # a chunk that is a view into the producer's block has changed by then
            held = list(ch(producer(), params=key))
            return [bytes(c) for c in held]
        return [bytes(c) for c in ch(iter(pieces), params=key)]

    def _disturb(self, adapter, r, mx):
        """Leave an adapter object in every state an earlier call can leave it in: a stream under another
        key run to completion, a stream abandoned after a few chunks, a stream whose source raised."""
        self.asan.mode = 'exact'
        self.mod._gclmulchunker = self.cls['asan']
        how = r.choice(['complete', 'abandoned', 'source-raises', 'no-key'])
        other_key = r.randbytes(16)
        if other_key[:8] == bytes(8):
            other_key = b'\x07' + other_key[1:]
        data = [r.randbytes(r.randint(1, 3 * mx + 5)) for _ in range(r.randint(2, 5))]
        if how == 'complete':
            list(adapter(iter(data), params=other_key))
        elif how == 'no-key':
            list(adapter(iter(data), params=None))
        elif how == 'abandoned':
            g = adapter(iter(data), params=other_key)
            next(g, None)
            del g
        else:
            def src():
                yield data[0]
                yield data[1]
                raise OSError(5, 'vf: source failed')
            try:
                list(adapter(src(), params=other_key))
            except OSError:
                pass
        return how

    def run_case(self, case):
        if case['kind'] == 'adapter':
            return self._adapter(case)
        if case['kind'] == 'direct':
            return self._direct(case)
        if case['kind'] == 'large':
            return self._large(case)
        if case['kind'] == 'optimised':
            return self._optimised(case)
        return self._params(case)

    def _optimised(self, case):
        import json
        import subprocess
        code = r'''
import sys, json, random, itertools
import vflib.rep
from replicat.utils import adapters
assert False, "assertions are on"          # must be stripped in this interpreter
r = random.Random(int(sys.argv[1]))
bad = []
n_streams = 0
for mn, mx in ((8, 64), (4, 256), (500, 10000), (12, 12)):
    for _ in range(6):
        n = r.randint(0, 30 * mx)
        data = r.randbytes(n)
        pieces, i = [], 0
        while i < n:
            step = r.randint(1, 4 * mx)
            pieces.append(data[i:i + step]); i += step
        ch = adapters.gclmulchunker(min_length=mn, max_length=mx)
        out = list(itertools.islice(ch(iter(pieces or [b""]), params=r.randbytes(16)), n + 3))   # more chunks than bytes cannot be
        n_streams += 1
        if b"".join(bytes(c) for c in out) != data or any(len(c) == 0 for c in out) or len(out) > n + 1:
            bad.append({"min": mn, "max": mx, "len": n, "chunks": len(out), "pieces": len(pieces)})
print(json.dumps({"streams": n_streams, "bad": bad[:3]}))
'''
        env = {k: v for k, v in os.environ.items() if k not in ('LD_PRELOAD', 'ASAN_OPTIONS', 'UBSAN_OPTIONS')}
        argv = [paths.PYTHON]
        if case['how'] == '-O':
            argv.append('-O')
        else:
            env['PYTHONOPTIMIZE'] = '1'
        try:
            p = subprocess.run(argv + ['-c', code, str(case['seed'])], capture_output=True, text=True, timeout=240, env=env, cwd=str(paths.VERIF))
        except subprocess.TimeoutExpired:
            return {'verdict': 'inconclusive', 'note': 'child interpreter watchdog', 'classes': [], 'counters': {}}
        if p.returncode != 0 or not p.stdout.strip():
            return {'verdict': 'inconclusive', 'note': f'child failed rc={p.returncode}: {p.stderr[-400:]}', 'classes': [], 'counters': {}}
        res = json.loads(p.stdout.strip().splitlines()[-1])
        v = [{'what': f'under an interpreter without assert statements ({case["how"]}) the chunks are not the input '
                      f'({b["chunks"]} chunks for {b["len"]} bytes in {b["pieces"]} pieces)', 'mechanism': None, 'witness': b} for b in res['bad'][:2]]
        return {'verdict': 'violated' if v else 'held', 'classes': [f'optimised|{case["how"]}'],
                'counters': {'adapter_cases': res['streams'], 'optimised_interpreter_streams': res['streams']}, 'violations': v}

    def _large(self, case):
        mn, mx = case['min'], case['max']
        r = random.Random(case['seed'])
        violations, classes = [], set()
        n = 9 * mx + r.randrange(0, mx) + r.choice([0, 1, 3])
        data = r.randbytes(n)
        key = r.randbytes(16)
        feeds = {'one': [data], '16MiB': [data[i:i + (16 << 20)] for i in range(0, n, 16 << 20)],
                 'random': segment(r, data, 'random', mx)}

        def heads(chs):
            out, p = [], 0
            for c in chs:
                if p >= n - 2 * mx:
                    break
                out.append((p, len(c)))
                p += len(c)
            return out
        ref = None
        for name, pieces in feeds.items():
            chs = self._chunks('plain', 'direct', mn, mx, pieces, key)
            ident = {'min': mn, 'max': mx, 'len': n, 'feed': name, 'chunk_lens': [len(c) for c in chs][:30]}
            if b''.join(chs) != data:
                violations.append({'what': 'concatenation of chunks differs from the input (large parameters)', 'mechanism': None, 'witness': ident})
            pos = 0
            for c in chs:
                if pos < n - 2 * mx and not (mn <= len(c) <= mx and len(c) % 4 == 0):
                    violations.append({'what': f'chunk at offset {pos} has length {len(c)} outside [{mn},{mx}] or unaligned (large parameters)',
                                       'mechanism': None, 'witness': ident})
                    break
                pos += len(c)
            if ref is None:
                ref = heads(chs)
            elif heads(chs) != ref:
                violations.append({'what': f'chunks before the tail zone depend on the segmentation (one feed vs {name}, max_length {mx})',
                                   'mechanism': None, 'witness': dict(ident, a=ref[:12], b=heads(chs)[:12])})
            classes.add(f'large|{name}')
        return {'verdict': 'violated' if violations else 'held', 'classes': sorted(classes),
                'counters': {'adapter_cases': 3, 'large_parameter_streams': 3}, 'violations': violations[:4]}

    def _adapter(self, case):
        mn, mx = case['min'], case['max']
        r = random.Random(case['seed'])
        counters = {'adapter_cases': 0}
        classes, violations = set(), []
        a0, g0, p0 = self.asan.calls, self.plain.calls, 0
        lengths = []
        if case.get('exhaustive_lengths'):
            lengths = list(range(0, 6 * mx + 8))
        lengths += [r.choice([0, 1, mx - 1, mx, mx + 1, mx + 2, mx + 3, mx + 4, 2 * mx - 1, 2 * mx, 2 * mx + 1,
                              mn + mx, mn + mx - 1, 3 * mx + 7, r.randint(0, 12 * mx + 7),
                              r.randint(0, 40 * mx)]) for _ in range(case['streams'])]
        prev_stream = None
        self.mod._gclmulchunker = self.cls['asan']
        shared_adapter = self.adapters.gclmulchunker(min_length=mn, max_length=mx)
        for li, n in enumerate(lengths):
            kind = r.choice(['random', 'random', 'const', 'zeros', 'periodic', 'sparse', 'sparse'])
            mx_hint[0] = mx
            data = make_data(r, kind, n)
            key = r.randbytes(16)
            if key[:8] == bytes(8):
                key = b'\x01' + key[1:]
            seg_kind = SEGMENTATIONS[li % len(SEGMENTATIONS)]
            pieces = segment(r, data, seg_kind, mx)
            ident = {'min': mn, 'max': mx, 'len': n, 'content': kind, 'seg': seg_kind,
                     'piece_lens': [len(p) for p in pieces][:40], 'key': key.hex(),
                     'data_hex': data[:96].hex()}
            ref = self._chunks('asan', 'exact', mn, mx, pieces, key)
            counters['adapter_cases'] += 1
            lens = [len(c) for c in ref]
            # losslessness, no empty chunk
            if b''.join(ref) != data:
                violations.append({'what': 'concatenation of chunks differs from the input', 'mechanism': None,
                                   'witness': dict(ident, chunk_lens=lens[:40])})
            if any(l == 0 for l in lens):
                violations.append({'what': 'empty chunk produced', 'mechanism': None,
                                   'witness': dict(ident, chunk_lens=lens[:40])})
            # bounds outside the tail zone
            pos = 0
            for l in lens:
                if pos < n - 2 * mx and not (mn <= l <= mx and l % 4 == 0):
                    violations.append({'what': f'chunk at offset {pos} has length {l} outside [{mn},{mx}] or unaligned '
                                               f'(stream {n}, tail zone starts at {n - 2 * mx})', 'mechanism': None,
                                       'witness': dict(ident, chunk_lens=lens[:40])})
                    break
                pos += l
            # determinism in differently prepared memory
            variants = [('asan', 'exact', None), ('plain', 'guard', None), ('plain', 'poison', b'\x00'),
                        ('plain', 'poison', b'\xff'), ('plain', 'poison', r.randbytes(7)), ('plain', 'direct', None)]
            for eng, mode, poison in variants[1:] if li % 3 else variants:
                other = self._chunks(eng, mode, mn, mx, pieces, key, poison)
                if other != ref:
                    violations.append({'what': f'chunks differ between memory preparations: asan/exact vs {eng}/{mode}'
                                               f'{"/" + poison.hex() if poison else ""}', 'mechanism': None,
                                       'witness': dict(ident, a=lens[:40], b=[len(c) for c in other][:40])})
                    break
            # the same pieces handed over in a reused block
            if li % 3 == 1:
                reused = self._chunks('asan', 'exact', mn, mx, pieces, key, reuse=True)
                counters['reused_block_streams'] = counters.get('reused_block_streams', 0) + 1
                if reused != ref:
                    violations.append({'what': 'chunks differ when the producer hands the pieces over in a reused block '
                                               '(a piece was read after the next one had been requested)', 'mechanism': None,
                                       'witness': dict(ident, a=lens[:40], b=[len(c) for c in reused][:40],
                                                       lossless=b''.join(reused) == data)})
            # earlier calls must not matter: one long-lived adapter object (as Repository keeps one), left in
            # every state an earlier call can leave it in, must give what a fresh object gives
            if li % 2 == 0:
                how = self._disturb(shared_adapter, r, mx)
                again = self._chunks('asan', 'exact', mn, mx, pieces, key, adapter=shared_adapter)
                counters['shared_adapter_streams'] = counters.get('shared_adapter_streams', 0) + 1
                classes.add(f'adapter|earlier-call|{how}')
                if again != ref:
                    violations.append({'what': f'result depends on an earlier call on the same adapter object ({how})',
                                       'mechanism': None,
                                       'witness': dict(ident, a=lens[:40], b=[len(c) for c in again][:40])})
            # splitting independence outside the tail zone
            other_seg = segment(r, data, r.choice(['one', 'random', 'wide', 'bytes' if n < 3000 else 'max+1']), mx)
            alt = self._chunks('asan', 'exact', mn, mx, other_seg, key)
            def heads(chs):
                out, p = [], 0
                for c in chs:
                    if p >= n - 2 * mx:
                        break
                    out.append((p, len(c)))
                    p += len(c)
                return out
            if heads(alt) != heads(ref):
                violations.append({'what': 'chunks before the tail zone depend on the segmentation', 'mechanism': None,
                                   'witness': dict(ident, other_piece_lens=[len(p) for p in other_seg][:40],
                                                   a=heads(ref)[:20], b=heads(alt)[:20])})
            prev_stream = pieces
            rel = 'tail-only' if n <= 2 * mx else 'long'
            classes.add(f'adapter|m{mx % 4}|{seg_kind}|{rel}|{kind}')
            classes.add(f'adapter|{mn}-{mx}|{rel}')
            if len(violations) > 4:
                break
        counters['asan_calls'] = self.asan.calls - a0
        counters['guard_calls'] = self.plain.calls - g0
        return {'verdict': 'violated' if violations else 'held', 'classes': sorted(classes),
                'counters': counters, 'violations': violations[:4]}

    def _direct(self, case):
        mn, mx = case['min'], case['max']
        r = random.Random(case['seed'])
        key = r.randbytes(16)
        if key[:8] == bytes(8):
            key = b'\x02' + key[1:]
        classes, violations = set(), []
        a0, g0 = self.asan.calls, self.plain.calls
        ca = self.cls['asan'](mn, mx, key)
        cp = self.cls['plain'](mn, mx, key)
        sizes = list(range(0, min(3 * mx + 9, 1200)))
        if 3 * mx + 9 > 1200:
            sizes += [mx - 1, mx, mx + 1, mx + 2, mx + 3, mx + 4, mx + 5, mx + 6, mx + 7, mx + 8, 2 * mx - 1, 2 * mx,
                      2 * mx + 1, 3 * mx + 7]
        for size in sizes:
            data = r.randbytes(size) if size % 5 else bytes(size)
            for fin in (False, True):
                self.asan.mode = 'exact'
                res = ca.next_cut(data, fin)
                outs = {}
                for mode, poison in (('guard', None), ('poison', b'\x00'), ('poison', b'\xff'),
                                     ('poison', b'\x5a\xc3\x11')):
                    self.plain.mode = mode
                    if poison:
                        self.plain.poison = poison
                    outs[f'{mode}{poison.hex() if poison else ""}'] = cp.next_cut(data, fin)
                if any(v != res for v in outs.values()):
                    violations.append({'what': f'next_cut result depends on memory behind the buffer '
                                               f'(min={mn}, max={mx}, size={size}, final={fin})', 'mechanism': None,
                                       'witness': {'asan_exact': res, 'others': outs, 'key': key.hex(),
                                                   'data_hex': data[:64].hex()}})
                if res > size:
                    violations.append({'what': f'next_cut returned {res} for a buffer of {size} bytes', 'mechanism': None,
                                       'witness': {'min': mn, 'max': mx, 'final': fin}})
                d = size - mx
                if 0 <= d <= 9:
                    classes.add(f'direct|m{mx % 4}|d{d}|f{int(fin)}')
                elif d < 0:
                    classes.add(f'direct|m{mx % 4}|short|f{int(fin)}')
                else:
                    classes.add(f'direct|m{mx % 4}|long|f{int(fin)}')
            if len(violations) > 3:
                break
        return {'verdict': 'violated' if violations else 'held', 'classes': sorted(classes),
                'counters': {'asan_calls': self.asan.calls - a0, 'guard_calls': self.plain.calls - g0,
                             'direct_cases': 1},
                'violations': violations[:3]}

    def _params(self, case):
        """Constructor contract: key must be 16 bytes with a non-zero low half; min <= max."""
        violations, n = [], 0
        for eng in ('asan', 'plain'):
            cls = self.cls[eng]
            for args, ok in (((4, 8, bytes(16)), False), ((4, 8, b'\x01' * 15), False), ((9, 8, b'\x01' * 16), False),
                             ((4, 8, b'\x01' * 16), True), ((8, 8, b'\x01' + bytes(15)), True),
                             ((4, 8, bytes(8) + b'\x01' * 8), False)):
                n += 1
                try:
                    cls(*args)
                    got = True
                except ValueError:
                    got = False
                if got != ok:
                    violations.append({'what': f'constructor accepted={got}, expected {ok} for {args[0]},{args[1]},key={args[2].hex()}',
                                       'mechanism': None, 'witness': {'engine': eng}})
        return {'verdict': 'violated' if violations else 'held', 'classes': ['params|ctor'],
                'counters': {'ctor_checks': n}, 'violations': violations}
