"""C15 - restore and the listings select exactly what the filters and timestamps say."""
import asyncio
import datetime as _dt
import itertools
import os
import random
import re

from .. import gen
from ..harness import CheckBase

UNITS = {'B': 1, 'K': 1000, 'M': 1000 ** 2, 'G': 1000 ** 3}


def human_brackets(text, true_size):
    m = re.fullmatch(r'([0-9.e+]+)([BKMG])', text)
    if not m:
        return False
    value, div = float(m.group(1)), UNITS[m.group(2)]
    return abs(value * div - true_size) <= 0.0051 * div + 0.5


def fmt_ts(ts_string):
    return _dt.datetime.fromisoformat(ts_string).isoformat(sep=' ', timespec='seconds')


class Check(CheckBase):
    property_id = 'C15'
    evaluations_counter = 'filter_pairs'
    level = 'exploration'
    rule = ('histories of 3-9 snapshots by one user (plus a same-family second user) over 7 paths whose contents appear, change, '
            'become EMPTY and disappear, with controlled distinct timestamps (consecutive seconds, several within one second, '
            'microsecond 0, non-monotone clock); for each history a set of (snapshot regex x file regex) pairs - none, anchored '
            'prefixes of printed names, inner fragments, suffixes, alternations, fragments that occur only in the storage path, '
            'nothing-matching - is run through restore, list-files and list-snapshots (column subsets of size 1-3 and full, with '
            'and without header) and compared with a 15-line selection model over the harness\'s record (re.search semantics, '
            'newest matching snapshot wins); listings compared row by row incl. order (newest first), counts, digests, times, '
            'sizes (human sizes must bracket the true size); every printed name is fed back to restore -S ^name$ and delete. '
            'class = (snapshot-regex kind, file-regex kind, command) and (column subset)')
    assumptions = ['timestamps of snapshots are distinct (property text)', 'notes without tabs/newlines (listings are tab separated)']
    case_timeout = 300

    def generate(self):
        quick = self.tier == 'quick'
        cases = []
        for i in range(56 if quick else 2700):
            r = random.Random(f'C15/{self.seed}/{i}')
            cases.append({'seed': r.randrange(1 << 30), 'flavour': 'async' if i % 2 else 'sync',
                          'settings': gen.gen_settings(r, encrypted=(i % 3 != 2), chunker=r.choice([(8, 64), (16, 257), (12, 12)])),
                          'nsnaps': r.randint(3, 7) if quick else r.randint(3, 9), 'pairs': 8 if quick else 14})
        return cases

    def worker_setup(self):
        from .. import hist  # noqa: F401

    def floors(self, agg):
        c = agg['counters']
        unmet = []
        if c.get('filter_pairs', 0) < (300 if self.tier == 'quick' else 5000):
            unmet.append(f'(snapshot filter x file filter) pairs {c.get("filter_pairs", 0)} below floor')
        if c.get('rows_compared', 0) < 2000:
            unmet.append('too few listing rows compared')
        if c.get('names_fed_back', 0) < 100:
            unmet.append('too few printed names fed back to restore/delete')
        if c.get('empty_supersedes_nonempty', 0) < 5:
            unmet.append('no history in which a path is empty in the newest snapshot and non-empty in an older one')
        return unmet

    def run_case(self, case):
        from .. import hist, model, rep
        from replicat.utils import FileListColumn as FC
        from replicat.utils import SnapshotListColumn as SC
        r = random.Random(case['seed'])
        enc = case['settings'].get('encryption') is not None
        graph = ['owner', ('shared', 0)] if enc else ['owner', 'same']
        world = hist.World(case['seed'], case['settings'], case['flavour'], 3, graph, latency=False)
        counters, classes, violations = {}, set(), []

        def viol(what, **w):
            violations.append({'what': what, 'mechanism': None, 'witness': dict(w, settings=case['settings'],
                                                                                ops=world.ops_log[-10:])})

        def count(k, n=1):
            counters[k] = counters.get(k, 0) + n
        # timestamps: distinct, in a deliberately awkward order
        base = _dt.datetime(2024, r.randint(1, 12), r.randint(1, 28), r.randint(0, 23), 59, 58)
        stamps, t = [], base
        for i in range(case['nsnaps'] + 6):
            kind = r.choice(['+1s', 'same-second', 'usec0', 'back'])
            if kind == '+1s':
                t = t + _dt.timedelta(seconds=1, microseconds=r.randrange(1, 999))
            elif kind == 'same-second':
                t = t + _dt.timedelta(microseconds=r.randrange(1, 400))
            elif kind == 'usec0':
                t = (t + _dt.timedelta(seconds=2)).replace(microsecond=0)
            else:
                t = t - _dt.timedelta(seconds=r.randint(3, 50), microseconds=r.randrange(1, 999))
            if t not in stamps:
                stamps.append(t)
        world.clock.seq = stamps
        names_pool = ['a', 'b', 'dir/c', 'dir/d.bin', 'dir/sub/é', 'g h', 'dir/c2']

        async def go():
            await world.setup()
            mx = case['settings']['chunking']['max_length']
            contents = [b'', b'', r.randbytes(3), r.randbytes(mx), r.randbytes(3 * mx + 5), r.randbytes(7 * mx + 1),
                        r.randbytes(1200), r.randbytes(12345)]
            users = sorted(world.users)
            for i in range(case['nsnaps']):
                u = users[0] if r.random() < 0.75 else users[1]
                fs = {nm: r.choice(contents) for nm in r.sample(names_pool, r.randint(1, len(names_pool)))}
                await world.snapshot(u, fs, note=r.choice([None, f'note {i}', '', 'ünï cödé']))
            # the recorded time of every snapshot is the UTC clock value of the moment it was taken
            served = [str(t) for t in world.clock.served]
            for s in world.snaps.values():
                if s.timestamp not in served:
                    viol('the timestamp recorded for a snapshot is not the UTC clock value at which it was taken',
                         recorded=s.timestamp, clock=served[:4])
                    break
            me = users[0]
            readable = [s for s in world.snaps.values() if s.user == me or not enc]
            family = list(world.snaps.values())
            # does this history contain the interesting "emptied later" shape?
            full = model.restore_model(readable)
            for p, (data, sname) in full.items():
                if data == b'' and any(s.files.get(p) for s in readable if s.name != sname):
                    count('empty_supersedes_nonempty')
                    break
            all_names = sorted(s.name for s in family)
            some = r.choice(all_names)
            other = r.choice(all_names)
            locs = {s.name: s.location for s in family}
            tag_fragment = locs[some].split('/')[2][:6]            # part of the storage path, not of the name
            sregs = [('none', None), ('anchored-prefix', '^' + some[:7]), ('inner', some[9:15]), ('suffix', some[-6:] + '$'),
                     ('full', f'^{some}$'), ('alternation', f'^{some[:8]}|{other[-8:]}$'), ('nothing', 'zzzz'),
                     ('path-only', '-' + some[:5]), ('path-only', '^snapshots'), ('path-only', tag_fragment + '.*-')]
            fregs = [('none', None), ('dir', 'dir/'), ('anchored', '^/.*c$'), ('alternation', 'a$|b$'), ('escaped', r'\.bin'),
                     ('nothing', 'nomatch'), ('unicode', 'é'), ('space', 'g h$')]
            pairs = [(sregs[0], fregs[0])] + [(r.choice(sregs), r.choice(fregs)) for _ in range(case['pairs'])]
            for (sk, sre), (fk, fre) in pairs:
                if sk == 'path-only' and sre is not None and any(re.search(sre, n) for n in all_names):
                    sk = 'inner'        # the fragment happens to occur in a name as well
                count('filter_pairs')
                want = model.restore_model(readable, sre, fre)
                # restore
                res, tree = await world.restore(me, snapshot_regex=sre, file_regex=fre)
                classes.add(f'{sk}|{fk}|restore')
                expect_tree = {p: d for p, (d, _) in want.items()}
                if tree != expect_tree or sorted(res.files or []) != sorted(expect_tree):
                    badp = sorted(p for p in set(tree) | set(expect_tree) if tree.get(p) != expect_tree.get(p))[:3]
                    viol(f'restore -S {sre!r} -F {fre!r} selected the wrong files or versions', paths=badp,
                         got={p: (len(tree[p]) if p in tree else None) for p in badp},
                         want={p: (len(expect_tree[p]), want[p][1][:10]) if p in expect_tree else None for p in badp},
                         listed_only=sorted(set(res.files or []) ^ set(expect_tree))[:3])
                # list-files: rows of matching snapshots x matching files, newest snapshot first
                cols = [FC.SNAPSHOT_NAME, FC.SNAPSHOT_DATE, FC.PATH, FC.CHUNK_COUNT, FC.SIZE, FC.DIGEST, FC.MTIME]
                out = await world.list_files(me, snapshot_regex=sre, file_regex=fre, header=False, columns=cols)
                rows = [[c.strip() for c in l.split('\t')] for l in out.splitlines() if l.strip()]
                classes.add(f'{sk}|{fk}|list-files')
                exp_rows = []
                for s in sorted(readable, key=lambda s: s.timestamp, reverse=True):
                    if sre is not None and re.search(sre, s.name) is None:
                        continue
                    for p, d in s.files.items():
                        if fre is not None and re.search(fre, p) is None:
                            continue
                        exp_rows.append((s, p, d))
                count('rows_compared', len(rows))
                if [row[0] for row in rows] != [s.name for s, _, _ in exp_rows] and \
                        sorted((row[0], row[2]) for row in rows) == sorted((s.name, p) for s, p, _ in exp_rows):
                    viol(f'list-files -S {sre!r} -F {fre!r}: rows are not ordered newest snapshot first',
                         got=[row[0][:8] for row in rows][:8], want=[s.name[:8] for s, _, _ in exp_rows][:8])
                elif sorted((row[0], row[2]) for row in rows) != sorted((s.name, p) for s, p, _ in exp_rows):
                    viol(f'list-files -S {sre!r} -F {fre!r} shows the wrong rows',
                         extra=sorted(set((row[0][:8], row[2]) for row in rows) - set((s.name[:8], p) for s, p, _ in exp_rows))[:3],
                         missing=sorted(set((s.name[:8], p) for s, p, _ in exp_rows) - set((row[0][:8], row[2]) for row in rows))[:3])
                else:
                    ref = world.users[me].ref
                    bykey = {(s.name, p): (s, d) for s, p, d in exp_rows}
                    for row in rows:
                        s, d = bykey[(row[0], row[2])]
                        mt = _dt.datetime.fromtimestamp(os.stat(row[2]).st_mtime, tz=_dt.timezone.utc) if False else None
                        if row[1] != fmt_ts(s.timestamp):
                            viol('list-files shows a wrong snapshot date', row=row, want=fmt_ts(s.timestamp))
                        if row[5] != ref.hash(d).hex():
                            viol('list-files shows a wrong digest', row=row)
                        if not human_brackets(row[4], len(d)):
                            viol('list-files shows a size that does not bracket the true size', row=row, true=len(d))
                        if not row[3].isdigit() or (int(row[3]) == 0) != (len(d) == 0 and int(row[3]) == 0):
                            if not row[3].isdigit():
                                viol('list-files chunk count is not a number', row=row)
                # list-files once more with the header on and a shuffled column selection: cells are read BY HEADER
                fcols = r.sample([FC.SNAPSHOT_NAME, FC.SNAPSHOT_DATE, FC.PATH, FC.CHUNK_COUNT, FC.SIZE, FC.DIGEST, FC.MTIME], r.randint(2, 5))
                if FC.PATH not in fcols:
                    fcols.append(FC.PATH)
                if FC.SNAPSHOT_NAME not in fcols:
                    fcols.insert(r.randrange(len(fcols) + 1), FC.SNAPSHOT_NAME)
                out = await world.list_files(me, snapshot_regex=sre, file_regex=fre, header=True, columns=fcols)
                flines = out.split('\n')[:-1] if out else []
                classes.add(f'list-files|header|cols={",".join(c.value for c in fcols)}')
                if flines:
                    labels = {'SNAPSHOT NAME': FC.SNAPSHOT_NAME, 'SNAPSHOT DATE': FC.SNAPSHOT_DATE, 'PATH': FC.PATH, 'CHUNKS': FC.CHUNK_COUNT,
                              'SIZE': FC.SIZE, 'DIGEST': FC.DIGEST, 'MODIFIED AT': FC.MTIME}
                    head = [labels.get(c.strip()) for c in flines[0].split('\t')]
                    if None in head:
                        count('header_labels_not_recognised')          # labels are presentation; only judged when recognised
                    elif sorted(h.value for h in head) != sorted(c.value for c in fcols):
                        viol('list-files header does not name the selected columns', header=flines[0], columns=[c.value for c in fcols])
                    else:
                        bykey = {(s_.name, p_): d_ for s_, p_, d_ in exp_rows}
                        ref = world.users[me].ref
                        count('rows_compared', len(flines) - 1)
                        for line in flines[1:]:
                            cells = dict(zip(head, [c.strip() for c in line.split('\t')]))
                            key = (cells.get(FC.SNAPSHOT_NAME), cells.get(FC.PATH))
                            if key not in bykey:
                                viol('list-files (read by its header) shows a row that matches no file of a matching snapshot: a cell is '
                                     'under the wrong column', row=line[:200], header=flines[0][:200])
                                break
                            d_ = bykey[key]
                            if FC.DIGEST in cells and cells[FC.DIGEST] != ref.hash(d_).hex():
                                viol('list-files (read by its header) shows a wrong digest', row=line[:200])
                                break
                            if FC.SIZE in cells and not human_brackets(cells[FC.SIZE], len(d_)):
                                viol('list-files (read by its header) shows a wrong size', row=line[:200], true=len(d_))
                                break
                elif exp_rows:
                    viol('list-files with a header printed nothing although files match')
                # list-snapshots with this snapshot filter and a column subset
                all_cols = [SC.NAME, SC.NOTE, SC.TIMESTAMP, SC.FILE_COUNT, SC.SIZE]
                subset = r.choice([all_cols] + [list(c) for k in (1, 2, 3) for c in itertools.combinations(all_cols, k)])
                header = r.random() < 0.5
                out = await world.list_snapshots(me, snapshot_regex=sre, header=header, columns=subset)
                lines = out.split('\n')[:-1] if out else []        # a row may be blank (single column, empty note)
                fam_match = [s for s in family if sre is None or re.search(sre, s.name)]
                if header and fam_match:
                    lines = lines[1:]
                rows = [[c.strip() for c in l.split('\t')] for l in lines]
                count('rows_compared', len(rows))
                classes.add(f'{sk}|list-snapshots|cols={",".join(c.value for c in subset)}|hdr={header}')
                can_read = lambda s: (s.user == me or not enc)      # noqa: E731
                order = sorted(fam_match, key=lambda s: (s.timestamp if can_read(s) else ''), reverse=True)

                def expected_row(s):
                    vals = []
                    for c in subset:
                        if c == SC.NAME:
                            vals.append(s.name)
                        elif not can_read(s):
                            vals.append('--')
                        elif c == SC.NOTE:
                            vals.append('--' if s.note is None else s.note)
                        elif c == SC.TIMESTAMP:
                            vals.append(fmt_ts(s.timestamp))
                        elif c == SC.FILE_COUNT:
                            vals.append(str(len(s.files)))
                        elif c == SC.SIZE:
                            vals.append(('size', sum(len(d) for d in s.files.values())))
                    return vals

                def row_ok(row, exp):
                    if len(row) != len(exp):
                        # an empty note at the end of a line is stripped by the comparison above
                        row = row + [''] * (len(exp) - len(row))
                    for got, want in zip(row, exp):
                        if isinstance(want, tuple):
                            if not human_brackets(got, want[1]):
                                return False
                        elif got != want.strip():
                            return False
                    return True
                exp = [expected_row(s) for s in order]
                if len(rows) != len(exp):
                    viol(f'list-snapshots -S {sre!r} shows {len(rows)} rows, expected {len(exp)}', columns=[c.value for c in subset])
                else:
                    # rows of unreadable snapshots (all '--') may come in any order among themselves
                    nread = sum(1 for s in order if can_read(s))
                    for i, (row, e) in enumerate(zip(rows[:nread], exp[:nread])):
                        if not row_ok(row, e):
                            same_set = sorted(map(str, rows)) == sorted(str([x if not isinstance(x, tuple) else None for x in ee]) for ee in exp)
                            viol(f'list-snapshots -S {sre!r} --columns {",".join(c.value for c in subset)}: row {i} is wrong or out of '
                                 f'order (newest first expected)', got=row, want=[x if not isinstance(x, tuple) else f'~{x[1]}B' for x in e],
                                 timestamps=[s.timestamp for s in order][:6])
                            break
                if len(violations) > 3:
                    return
            # printed names are the names restore -S and delete accept
            out = await world.list_snapshots(me, header=False, columns=[SC.NAME])
            printed = [l.strip() for l in out.splitlines() if l.strip()]
            if sorted(printed) != sorted(all_names):
                viol('list-snapshots --columns name does not print exactly the snapshot names', printed=printed[:4])
            for nm in r.sample(printed, min(3, len(printed))):
                count('names_fed_back')
                s = world.snaps.get(nm)
                if s is None:
                    continue
                res, tree = await world.restore(me, snapshot_regex=f'^{nm}$')
                expect_tree = dict(s.files) if (s.user == me or not enc) else {}
                if tree != expect_tree:
                    viol('restore -S ^<printed name>$ does not restore exactly that snapshot', name=nm[:12])
            mine = [n for n in printed if n in world.snaps and (world.snaps[n].user == me or not enc)]
            if mine:
                # a request that mixes a printed name with a name that is not listed must be refused as a whole
                good = r.choice(mine)
                for bogus in (good[:-3], good + 'ff', 'deadbeef' * 8):
                    before_objs = world.store.snapshot_objects()
                    nmut = len(world.store.mutations)
                    repo_ = await world.repo(me, fresh=True)
                    try:
                        with rep.capture():
                            await repo_.delete_snapshots(r.sample([good, bogus], 2), confirm=False)
                        refused = False
                    except Exception:
                        refused = True
                    await world.drain()
                    count('mixed_delete_requests')
                    if not refused or len(world.store.mutations) != nmut or world.store.snapshot_objects() != before_objs:
                        viol('delete with one listed and one unknown snapshot name was not refused before deleting anything',
                             refused=refused, mutations=len(world.store.mutations) - nmut, unknown=bogus[:16])
                        for x in list(world.snaps):
                            if world.snaps[x].location not in world.store.objects:
                                world.deleted[x] = world.snaps.pop(x)
                        break
                mine = [n for n in mine if n in world.snaps]
            if mine:
                victim = r.choice(mine)
                before = set(world.snaps)
                try:
                    await world.delete(me, [victim])
                except Exception as e:
                    viol(f'delete does not accept a printed snapshot name: {type(e).__name__}: {e}', name=victim[:12])
                else:
                    out = await world.list_snapshots(me, header=False, columns=[SC.NAME])
                    left = sorted(l.strip() for l in out.splitlines() if l.strip())
                    if left != sorted(before - {victim}):
                        viol('delete <printed name> did not remove exactly that snapshot', name=victim[:12])
        try:
            asyncio.run(go())
        except Exception as e:
            import traceback
            viol(f'history aborted by {type(e).__name__}: {e}', trace=traceback.format_exc()[-2000:])
        finally:
            world.close()
        return {'verdict': 'violated' if violations else 'held', 'classes': sorted(classes), 'counters': counters,
                'violations': violations[:4]}
