"""C13 - all backends behave as the same simple object store."""
import asyncio
import inspect
import io
import os
import random
import shutil
import tempfile
import threading
import time

from .. import paths
from ..harness import CheckBase
from .c16 import CLASSES

SPELLINGS = ['abs', 'rel', './rel', 'rel/', 'rel/.', 'a/../rel', '.', '', 'abs/', 'abs//x/..']
EXTRA_CLASSES = {'tmp-suffix': ['x.tmp', 'a.tmp', '.tmp'], 'long': ['L' * 240], 'dots': ['a.b.c', '.hidden', 'x..y', '...']}


def gen_names(r, n, kind):
    classes = dict(CLASSES)
    classes.update(EXTRA_CLASSES)
    if kind == 'b2':
        classes.pop('backslash')        # B2 documents backslash as not allowed in file names
    names = []
    for _ in range(n * 3):
        cls = r.choice(list(classes))
        depth = r.randint(1, 3)
        segs = [r.choice(classes[cls]) if r.random() < 0.6 else r.choice(classes['unreserved']) + str(r.randrange(100))
                for _ in range(depth)]
        segs = [s for s in segs if s not in ('.', '..', '')]
        if not segs:
            continue
        # most names live under a few common top-level prefixes, so that prefix listings span several pages and
        # other names sort before and after the prefix range
        if r.random() < 0.75:
            segs = [r.choice(['data', 'data', 'snapshots', 'm n', 'é'])] + segs
        if kind.startswith('local'):
            segs = [s for s in segs if '\x00' not in s and '/' not in s]
        name = '/'.join(segs)
        if len(name.encode()) > 700:
            continue
        clash = any(name == m or name.startswith(m + '/') or m.startswith(name + '/') for m, _ in names)
        if not clash:
            names.append((name, cls))
        if len(names) >= n:
            break
    return names


class Check(CheckBase):
    property_id = 'C13'
    evaluations_counter = 'returns_compared'
    level = 'exploration'
    rule = ('operation sequences of 40-150 calls {upload, upload_stream, download, download_stream, exists, delete (also of absent '
            'names, twice), list_files(prefix)} on the real Local / S3Compatible / S3 / B2 adapters (S3 and B2 behind fake services '
            'that page listings 1-7 names at a time and implement hide markers / versions); every return value is compared at once '
            'with a dict executing the same history, listings as multisets ("each once"), the final service/directory state with the '
            'dict. Names are built from path segments of 13 character classes (no name is a directory prefix of another; no "." / '
            '".." / empty segments); prefixes are whole segments, partial segments, empty, beyond every name; payloads around the '
            'stream chunk size; Local is opened through the spellings abs, rel, ./rel, rel/, rel/., a/../rel, ".", "" (cwd inside '
            'the repository). Atomic replace on Local: a reader thread downloads in a loop while a writer alternates two '
            'self-describing payloads, then two writers overwrite the same name at once; B2 is addressed by bucket name or bucket id. '
            'class = (backend, operation, name class) / (local spelling)')
    assumptions = ['fake S3/B2 implement documented service behaviour (vflib/fakehttp.py) and are part of the trusted base',
                   'B2 file names exclude backslash (documented B2 restriction)']
    case_timeout = 300

    def generate(self):
        quick = self.tier == 'quick'
        cases = []
        kinds = ['s3c', 'b2', 's3', 'b2', 's3c', 'b2'] + [f'local:{s}' for s in SPELLINGS]
        n = 156 if quick else 60000
        for i in range(n):
            r = random.Random(f'C13/{self.seed}/{i}')
            cases.append({'kind': kinds[i % len(kinds)], 'seed': r.randrange(1 << 30), 'nops': r.randint(40, 90) if quick else r.randint(40, 150),
                          'page': [1, 2, 3, 7][(i // 3) % 4], 'nnames': r.choice([0, 3, 12, 25, 40, 40])})
        for i in range(6 if quick else 120):
            cases.append({'kind': 'local-atomic', 'seed': i, 'nops': 0})
        return cases

    def worker_setup(self):
        from .. import rep, fakehttp  # noqa: F401

    def floors(self, agg):
        c = agg['counters']
        unmet = []
        for b in ('s3c', 'b2'):
            if c.get(f'multi_page_listings_{b}', 0) < 3:
                unmet.append(f'fewer than 3 multi-page listings on {b}')
            if c.get(f'multi_page_prefix_listings_{b}', 0) < 3:
                unmet.append(f'fewer than 3 multi-page listings with a proper prefix on {b}')
        for s in SPELLINGS:
            if not any(k == f'spelling|{s}' for k in agg['classes']):
                unmet.append(f'local spelling {s!r} not used')
        if c.get('returns_compared', 0) < (5000 if self.tier == 'quick' else 80000):
            unmet.append('too few return values compared with the model')
        if c.get('atomic_reads', 0) < 500:
            unmet.append('too few reads during concurrent overwrites')
        return unmet[:6]

    def run_case(self, case):
        scratch = tempfile.mkdtemp(prefix='vf-c13-', dir=paths.scratch_root())
        cwd = os.getcwd()
        try:
            if case['kind'] == 'local-atomic':
                return self._atomic(case, scratch)
            return self._sequence(case, scratch)
        finally:
            os.chdir(cwd)
            shutil.rmtree(scratch, ignore_errors=True)

    # ---------------------------------------------------------------------------------------------------
    def _make(self, case, scratch, r):
        from .. import fakehttp
        kind = case['kind']
        if kind.startswith('local:'):
            from replicat.backends.local import Local
            sp = kind.split(':', 1)[1]
            base = os.path.join(scratch, 'w')
            repo = os.path.join(base, 'rel')
            os.makedirs(os.path.join(base, 'a'))
            os.makedirs(repo)
            os.chdir(base)
            conn = {'abs': repo, 'rel': 'rel', './rel': './rel', 'rel/': 'rel/', 'rel/.': 'rel/.', 'a/../rel': 'a/../rel',
                    'abs/': repo + '/', 'abs//x/..': None}.get(sp)
            if sp in ('.', ''):
                os.chdir(repo)
                conn = sp
            if sp == 'abs//x/..':
                os.makedirs(os.path.join(repo, 'x'))
                conn = repo + '//x/..'

            def final_state():
                out = {}
                for dp, _, fns in os.walk(repo):
                    for fn in fns:
                        full = os.path.join(dp, fn)
                        out[os.path.relpath(full, repo)] = open(full, 'rb').read()
                return out
            return Local(conn), final_state, None
        if kind in ('s3c', 's3'):
            import replicat.backends.s3c as s3c
            from replicat.backends.s3 import S3
            if kind == 's3':
                be = S3('bkt', key_id='k', access_key='s', region='eu-west-3')
            else:
                be = s3c.S3Compatible('bkt', key_id='k', access_key='s', region='r1', host='h.vf.test:9000', scheme='http')
            svc = fakehttp.FakeS3('bkt', {'k': 's'}, page_size=case['page'])
            svc.empty_page_every = [0, 2, 3][case['seed'] % 3]
            fakehttp.attach(be, svc)
            return be, (lambda: dict(svc.objects)), svc
        from replicat.backends.b2 import B2
        svc = fakehttp.FakeB2('my-bucket', 'kid', 'appkey', page_size=case['page'], restricted=case['seed'] % 2 == 0)
        # the location is spelled with the bucket's name or with its id: both are accepted
        be = B2(svc.bucket_id if (case['seed'] // 2) % 3 == 0 else 'my-bucket', key_id='kid', application_key='appkey')
        fakehttp.attach(be, svc)
        return be, svc.live, svc

    def _sequence(self, case, scratch):
        import backoff._async
        import backoff._sync
        r = random.Random(case['seed'])
        kind = case['kind']
        bk = kind.split(':')[0]
        backend, final_state, svc = self._make(case, scratch, r)
        names = gen_names(r, case['nnames'], bk)
        model = {}
        counters, classes, violations = {'returns_compared': 0}, set(), []
        c = r.choice([5, 64, 1000])
        real_asyncio, real_time = backoff._async.asyncio, backoff._sync.time

        class _NoSleepA:
            def __getattr__(self, name):
                return getattr(real_asyncio, name)

            @staticmethod
            async def sleep(delay, *a, **k):
                await real_asyncio.sleep(0)

        class _NoSleepT:
            def __getattr__(self, name):
                return getattr(real_time, name)

            @staticmethod
            def sleep(delay):
                return None
        backoff._async.asyncio, backoff._sync.time = _NoSleepA(), _NoSleepT()

        def viol(what, mechanism=None, **w):
            violations.append({'what': what, 'mechanism': mechanism, 'witness': dict(w, backend=kind, page=case['page'])})

        async def call(fn, *a):
            res = fn(*a)
            if inspect.isawaitable(res):
                res = await asyncio.wait_for(res, 60)
            return res

        async def listing(prefix):
            res = backend.list_files(prefix)
            if hasattr(res, '__aiter__'):
                return [n async for n in res]
            return list(res)

        def name_class(name):
            return next((cl for nm, cl in names if nm == name), 'other')

        async def go():
            if not names:
                for pfx in ('', 'x', 'data/'):
                    got = await listing(pfx)
                    counters['returns_compared'] += 1
                    if got:
                        viol(f'list_files({pfx!r}) on an empty store returns {got[:3]}')
                return
            for nm, _cls in names[: int(len(names) * 0.7)]:
                data = r.randbytes(r.choice([0, 3, c + 1]))
                await call(backend.upload, nm, data)
                model[nm] = data
            for step in range(case['nops']):
                op = r.choice(['upload', 'upload', 'upload', 'upload_stream', 'download', 'download_stream', 'exists', 'exists', 'delete', 'list', 'list', 'list'])
                name, cls = r.choice(names)
                data = r.randbytes(r.choice([0, 1, c - 1, c, c + 1, 3 * c + 1])) if r.random() < 0.8 else bytes([65 + step % 26]) * r.randint(1, 40)
                classes.add(f'{bk}|{op}|{cls}')
                try:
                    if op in ('upload', 'upload_stream') and name in model and r.random() < 0.35:
                        # overwrite with DIFFERENT bytes of exactly the same length
                        data = bytes(b ^ 0xA5 for b in model[name]) or b''
                    if op == 'upload':
                        await call(backend.upload, name, data)
                        model[name] = data
                    elif op == 'upload_stream':
                        await call(backend.upload_stream, name, io.BytesIO(data), len(data), c)
                        model[name] = data
                    elif op in ('download', 'download_stream'):
                        try:
                            if op == 'download':
                                got = await call(backend.download, name)
                            else:
                                buf = io.BytesIO(b'stale bytes that must not survive' * r.randint(0, 3))
                                await call(backend.download_stream, name, buf, c)
                                got = buf.getvalue()
                            counters['returns_compared'] += 1
                            if name not in model:
                                viol(f'{op} of an absent name returned {len(got)} bytes instead of failing', name=name)
                            elif bytes(got) != model[name]:
                                viol(f'{op} returned other bytes than the last upload', name=name, got=len(got), want=len(model[name]))
                        except Exception as e:
                            counters['returns_compared'] += 1
                            if name in model:
                                viol(f'{op} of a live object failed: {type(e).__name__}: {str(e)[:120]}',
                                     _name_mechanism(bk, name, op), name=name)
                    elif op == 'exists':
                        # the name itself, a longer name, or a PROPER PREFIX of a live name (a directory, a cut segment)
                        # the name itself, a longer name, or a proper prefix that cuts a SEGMENT (whole-segment prefixes are
                        # directories: "no name is a directory prefix of another" keeps them out of the property)
                        cuts = [name[:k] for k in (len(name) - 1, max(1, len(name) // 2), max(1, len(name) - 2))
                                if 0 < k < len(name) and name[k] != '/' and not name[:k].endswith('/')
                                and name[:k].rsplit('/', 1)[-1] not in ('.', '..')
                                and not any(nm.startswith(name[:k] + '/') for nm, _ in names)]
                        probe = r.choice([name, name, name, name + r.choice(['x', '/y', ' '])] + cuts)
                        got = await call(backend.exists, probe)
                        counters['returns_compared'] += 1
                        if bool(got) != (probe in model):
                            viol(f'exists({probe!r}) = {got}, the model says {probe in model}', _name_mechanism(bk, probe, op), name=probe)
                    elif op == 'delete':
                        await call(backend.delete, name)
                        model.pop(name, None)
                        if r.random() < 0.3:
                            await call(backend.delete, name)          # idempotent
                    else:
                        pfx = r.choice(['', name, name[:r.randint(1, len(name))], name.split('/')[0] + '/', name.split('/')[0] + '/',
                                        name.split('/')[0], name + '/', 'zzzz-beyond',
                                        name.rsplit('/', 1)[0] + '/' if '/' in name else name[:1]])
                        got = await listing(pfx)
                        want = sorted(n for n in model if n.startswith(pfx))
                        counters['returns_compared'] += 1
                        if svc is not None and len(want) > case['page']:
                            counters[f'multi_page_listings_{bk}'] = counters.get(f'multi_page_listings_{bk}', 0) + 1
                            if pfx and len(want) < len(model):
                                counters[f'multi_page_prefix_listings_{bk}'] = counters.get(f'multi_page_prefix_listings_{bk}', 0) + 1
                        if sorted(got) != want:
                            extra = [g for g in got if g not in want][:3]
                            missing = [w for w in want if w not in got][:3]
                            dup = [g for g in set(got) if got.count(g) > 1][:3]
                            viol(f'list_files({pfx!r}) differs from the model: extra={extra} missing={missing} duplicates={dup}',
                                 _list_mechanism(bk, kind, extra, missing, dup), got=len(got), want=len(want))
                except Exception as e:
                    import traceback
                    viol(f'{op}({name!r}) raised {type(e).__name__}: {str(e)[:160]}', _name_mechanism(bk, name, op),
                         trace=traceback.format_exc()[-900:])
                if sum(1 for x in violations if not x['mechanism']) > 5:
                    break
            state = final_state()
            state = {k: v for k, v in state.items()}
            if state != model and not any(not x['mechanism'] for x in violations):
                diff = sorted(k for k in set(state) | set(model) if state.get(k) != model.get(k))[:3]
                viol('final state of the service/directory differs from the model', None, names=diff)
            if hasattr(backend, 'close'):
                await call(backend.close)
        try:
            asyncio.run(go())
        except Exception as e:
            import traceback
            viol(f'sequence aborted: {type(e).__name__}: {e}', trace=traceback.format_exc()[-1200:])
        finally:
            backoff._async.asyncio, backoff._sync.time = real_asyncio, real_time
        if kind.startswith('local:'):
            classes.add('spelling|' + kind.split(':', 1)[1])
        if svc is not None:
            counters['service_requests'] = len(svc.requests)
            counters['pages_fetched'] = svc.pages
            if getattr(svc, 'empty_pages', 0):
                counters['empty_truncated_pages'] = svc.empty_pages
        # violations not attributed to a known mechanism first: they must never be crowded out by known ones
        violations.sort(key=lambda x: x['mechanism'] is not None)
        known_seen = {}
        kept = []
        for x in violations:
            if x['mechanism']:
                known_seen[x['mechanism']] = known_seen.get(x['mechanism'], 0) + 1
                if known_seen[x['mechanism']] > 1:
                    continue
            kept.append(x)
        return {'verdict': 'violated' if violations else 'held', 'classes': sorted(classes), 'counters': counters,
                'violations': kept[:6]}

    # ---------------------------------------------------------------------------------------------------
    def _atomic(self, case, scratch):
        from replicat.backends.local import Local
        repo = os.path.join(scratch, 'repo')
        os.makedirs(repo)
        be = Local(repo)
        a, b = b'A' * 300_000, b'B' * 170_001
        be.upload('d/obj', a)
        stop = threading.Event()
        seen = {'reads': 0, 'bad': None, 'exists_false': 0, 'list_bad': None}

        def reader():
            while not stop.is_set():
                try:
                    got = be.download('d/obj')
                except FileNotFoundError:
                    seen['bad'] = 'object vanished during an overwrite'
                    return
                seen['reads'] += 1
                if got != a and got != b:
                    seen['bad'] = f'a reader saw {len(got)} bytes, {len(set(got))} distinct byte values: a mix or a partial object'
                    return
                if not be.exists('d/obj'):
                    seen['exists_false'] += 1
                ls = list(be.list_files('d/'))
                if ls != ['d/obj']:
                    seen['list_bad'] = ls
        th = [threading.Thread(target=reader) for _ in range(3)]
        for t in th:
            t.start()
        for i in range(150):
            if i % 2:
                be.upload('d/obj', a)
            else:
                be.upload_stream('d/obj', io.BytesIO(b), len(b), 7000)
            if seen['bad']:
                break
        # a NEW name while its streamed upload is under way: looked at from inside the payload stream's read() (so at a
        # known point of the upload), it is either absent or complete - in exists(), in listings and in downloads
        class Probing(io.BytesIO):
            def read(self_, n=-1):
                piece = super().read(n)
                if piece and self_.tell() > len(piece):          # not the first piece: something has been written already
                    seen['probes'] = seen.get('probes', 0) + 1
                    ex, ls = be.exists('new/obj'), list(be.list_files('new/'))
                    got = None
                    if ex or ls:                       # (a download of an absent name goes through the adapter's retry waits)
                        try:
                            got = be.download('new/obj')
                        except FileNotFoundError:
                            got = None
                    if (ex, ls, got) not in ((False, [], None), (True, ['new/obj'], c_payload)):
                        seen['bad'] = seen['bad'] or (f'while a first upload of a name is streaming: exists={ex}, listing={ls}, download='
                                                      f'{"absent" if got is None else str(len(got)) + " bytes"} (payload {len(c_payload)} bytes)')
                return piece
        c_payload = b'C' * 50_000
        if not seen['bad']:
            be.upload_stream('new/obj', Probing(c_payload), len(c_payload), 4096)
            if be.download('new/obj') != c_payload:
                seen['bad'] = 'a streamed upload of a new name stored other bytes'
        # two writers overwrite the SAME name at once (two clients, or two workers of one snapshot hitting one chunk):
        # readers still see one payload or the other, each upload completes, and the object ends up as one of the two
        werr = []

        def writer(payload, streamed):
            try:
                for _ in range(60):
                    if streamed:
                        be.upload_stream('d/obj', io.BytesIO(payload), len(payload), 7000)
                    else:
                        be.upload('d/obj', payload)
                    if seen['bad']:
                        break
            except Exception as e:             # noqa: BLE001
                werr.append(f'{type(e).__name__}: {e}')
        if not seen['bad']:
            ws = [threading.Thread(target=writer, args=(a, case['seed'] % 2 == 0)), threading.Thread(target=writer, args=(b, True))]
            for t in ws:
                t.start()
            for t in ws:
                t.join(120)
            seen['concurrent_writer_rounds'] = 120
        stop.set()
        for t in th:
            t.join(20)
        v = []
        if werr:
            v.append({'what': 'an upload failed because another upload of the same name ran at the same time: ' + werr[0],
                      'mechanism': None, 'witness': {}})
        final = be.download('d/obj')
        if final != a and final != b:
            v.append({'what': f'after concurrent overwrites the object is neither payload ({len(final)} bytes)', 'mechanism': None, 'witness': {}})
        if seen['bad']:
            v.append({'what': 'overwrite on the local backend is not atomic: ' + seen['bad'], 'mechanism': None, 'witness': {}})
        if seen['exists_false']:
            v.append({'what': 'exists() reported a live object absent during an overwrite', 'mechanism': None, 'witness': seen})
        if seen['list_bad'] is not None:
            v.append({'what': f'listing during an overwrite returned {seen["list_bad"]}', 'mechanism': None, 'witness': {}})
        return {'verdict': 'violated' if v else 'held', 'classes': ['local-atomic'],
                'counters': {'atomic_reads': seen['reads'], 'returns_compared': seen['reads']}, 'violations': v}


def _name_mechanism(bk, name, op):
    return None


def _list_mechanism(bk, kind, extra, missing, dup):
    """Known finding by mechanism: the local backend hides every name that ends in '.tmp' from listings."""
    if bk == 'local' and not extra and not dup and missing and all(m.endswith('.tmp') for m in missing):
        return 'local-tmp-suffix-hidden'
    return None
