"""C01 - backup round trip is the identity on file trees."""
import asyncio
import os
import random
import shutil
import tempfile
from pathlib import Path

from .. import gen, paths
from ..harness import CheckBase

ARG_SHAPES = ['files', 'root', 'dup-root', 'dup-file', 'overlap-dir', 'overlap-file', 'dotdot',
              'filelink-in-dir', 'dirlink-in-dir', 'link-arg', 'arg+target', 'subdirs']
PRE_STATES = ['none', 'longer', 'shorter', 'samelen', 'elsewhere', 'mixed']
BACKENDS = ['mem', 'amem', 'local']


class Check(CheckBase):
    property_id = 'C01'
    level = 'exploration'
    rule = ('cases = seeded product of repository settings (hash x cipher x chunker incl. max%4!=0, '
            'min=max) x tree (size classes around alignment/min/max/2max, content recipes, name '
            'classes) x argument shape x pre-existing target state x backend flavour x concurrency; '
            'oracle = harness-side ground truth of recorded paths/bytes/mtime vs. full walk of the '
            'restore target + restore().files multiset + reference restore of every file entry; '
            'a class is the tuple (argument shape, pre-state, settings class, size classes present) '
            'of a case whose oracle ran to completion')
    assumptions = ['files do not change during the snapshot',
                   'ownership/mode are not restored by replicat and are not compared',
                   'symlink cycles are not generated (not a finite tree)']
    case_timeout = 180

    def generate(self):
        n = 320 if self.tier == 'quick' else 80000
        cases = []
        for i in range(n):
            r = random.Random(f'C01/{self.seed}/{i}')
            chunker = gen.CHUNKERS[i % len(gen.CHUNKERS)]
            case = {
                'seed': r.randrange(1 << 30),
                'settings': gen.gen_settings(r, chunker=chunker),
                'shape': ARG_SHAPES[i % len(ARG_SHAPES)],
                'pre': PRE_STATES[(i // len(ARG_SHAPES)) % len(PRE_STATES)],
                'backend': BACKENDS[(i // 3) % len(BACKENDS)],
                'concurrent': r.choice([1, 2, 5, 16]),
                'rate_limit': r.choice([None, None, None, 10_000_000, 200_000_000]),
                'kind': 'tree',
            }
            if i % 23 == 22:
                case['kind'] = 'all-empty'
            cases.append(case)
        # piece-boundary cases (16 MiB read piece) with a coarse chunker
        # sizes relative to the 16 MiB read piece: (number of pieces, delta)
        piece_sizes = [(1, 1), (1, 0), (2, 3), (1, -1)] if self.tier == 'quick' else \
            [(1, d) for d in (-1, 0, 1, -4, 4, 3, -3, 2, 5, -5)] + [(2, 0), (2, 3), (2, -1), (3, 1)]
        for j, (npieces, delta) in enumerate(piece_sizes):
            r = random.Random(f'C01/{self.seed}/piece/{j}')
            cases.append({
                'seed': r.randrange(1 << 30),
                # coarse and fine chunkers on files both within and beyond one read piece (with a fine chunker the upload
                # queue fills and chunks complete while their file is still being read)
                'settings': gen.gen_settings(r, chunker=gen.COARSE_CHUNKER if (j // 2) % 2 == 0 else (500, 10000)),
                'shape': 'root', 'pre': 'none', 'backend': 'mem', 'concurrent': [5, 1, 2, 16][j % 4],
                'rate_limit': None, 'kind': 'piece',
                'piece_count': npieces, 'piece_delta': delta,
                'timeout': 600,
            })
        return cases

    def worker_setup(self):
        from .. import rep, membackend, refimpl  # noqa: F401  (installs the native bridge)

    def floors(self, agg):
        unmet = []
        need = 120 if self.tier == 'quick' else 600
        if len(agg['classes']) < need:
            unmet.append(f'distinct classes {len(agg["classes"])} < {need}')
        if agg['counters'].get('files_compared', 0) < 500:
            unmet.append('fewer than 500 files compared')
        if agg['counters'].get('ref_restores', 0) < 300:
            unmet.append('fewer than 300 reference restores of file entries')
        if not any(k.startswith('size:') and 'piece+' in k and not k.startswith('size:1piece+0') for k in agg['classes']):
            unmet.append('no file spanning more than one 16 MiB read piece')
        return unmet

    # -------------------------------------------------------------------------------------------
    def run_case(self, case):
        scratch = tempfile.mkdtemp(prefix='vf-c01-', dir=paths.scratch_root())
        cwd = os.getcwd()
        try:
            return self._run(case, scratch)
        finally:
            os.chdir(cwd)
            shutil.rmtree(scratch, ignore_errors=True)

    def _build_tree(self, case, scratch):
        r = random.Random(case['seed'])
        mn = case['settings']['chunking']['min_length']
        mx = case['settings']['chunking']['max_length']
        src = os.path.join(scratch, 'src')
        os.makedirs(src)
        if case['kind'] == 'all-empty':
            files = []
            for i in range(r.randint(1, 4)):
                nm, ncls = gen.gen_name(r)
                files.append({'rel': [f'e{i}' + nm[:40]], 'recipe': {'kind': 'zeros', 'size': 0},
                              'size_class': '0', 'name_class': ncls, 'mtime_ns': 1_500_000_000_000_000_007 + i})
        elif case['kind'] == 'piece':
            d, k = case['piece_delta'], case.get('piece_count', 1)
            files = [
                {'rel': ['big'], 'recipe': {'kind': 'random', 'size': k * gen.PIECE + d, 'seed': case['seed']},
                 'size_class': f'{k}piece{d:+d}', 'name_class': 'ascii', 'mtime_ns': 1_600_000_000_000_000_001},
                {'rel': ['small'], 'recipe': {'kind': 'random', 'size': 1001, 'seed': case['seed'] + 1},
                 'size_class': 'rand', 'name_class': 'ascii', 'mtime_ns': 5},
            ]
        else:
            files = gen.gen_tree(r, mn, mx, max_bytes=400_000)
            if not files:
                files = [{'rel': ['only'], 'recipe': {'kind': 'random', 'size': mx + 1, 'seed': 1},
                          'size_class': 'max+1', 'name_class': 'ascii', 'mtime_ns': 7}]
        gen.materialise(src, files)
        return r, src, files

    def _arguments(self, case, r, scratch, src, files):
        """Returns (list of argument paths as given to replicat, cwd to use)."""
        shape = case['shape']
        rels = [os.path.join(src, *f['rel']) for f in files]
        subdirs = sorted({os.path.dirname(p) for p in rels if os.path.dirname(p) != src})
        cwd = scratch
        if shape == 'files':
            args = list(rels)
        elif shape == 'root':
            args = [src]
        elif shape == 'dup-root':
            args = [src, src]
        elif shape == 'dup-file':
            args = list(rels) + [r.choice(rels)]
        elif shape == 'overlap-dir':
            args = [src] + (subdirs[:1] or [src])
        elif shape == 'overlap-file':
            args = [r.choice(rels), src]
        elif shape == 'subdirs':
            args = (subdirs or [src]) + [p for p in rels if os.path.dirname(p) == src]
        elif shape == 'dotdot':
            other = os.path.join(scratch, 'other', 'deep')
            os.makedirs(other)
            cwd = other
            args = [os.path.join('..', '..', 'src')]
            if rels:
                args.append(os.path.join('..', '..', 'src', *files[0]['rel'][:-1], '.', files[0]['rel'][-1]))
                args = args[::-1] if r.random() < 0.5 else args
                # the second argument overlaps the first; keep one of the two forms only half the time
                if r.random() < 0.5:
                    args = [os.path.join('..', '..', 'src')]
        elif shape == 'filelink-in-dir':
            tgt = r.choice(rels)
            os.symlink(tgt, os.path.join(src, 'zz-link-to-file'))
            ext = os.path.join(scratch, 'ext-file')
            with open(ext, 'wb') as f:
                f.write(b'external file content ' * 3)
            os.utime(ext, ns=(11, 1_234_567_891_234_567_891))
            os.symlink(ext, os.path.join(src, 'zz-link-to-ext'))
            os.symlink(os.path.join(scratch, 'nonexistent'), os.path.join(src, 'zz-dangling'))
            args = [src]
        elif shape == 'dirlink-in-dir':
            extd = os.path.join(scratch, 'extdir', 'inner')
            os.makedirs(extd)
            for k in range(2):
                p = os.path.join(extd, f'x{k}')
                with open(p, 'wb') as f:
                    f.write(random.Random(case['seed'] + k).randbytes(37 * (k + 1)))
                os.utime(p, ns=(3, 1_111_111_111_000_000_000 + k))
            os.symlink(os.path.join(scratch, 'extdir'), os.path.join(src, 'zz-dirlink'))
            args = [src]
        elif shape == 'link-arg':
            os.symlink(src, os.path.join(scratch, 'link-to-src'))
            args = [os.path.join(scratch, 'link-to-src')]
            if rels and r.random() < 0.5:
                fl = os.path.join(scratch, 'link-to-file')
                os.symlink(rels[0], fl)
                args = [fl]
        elif shape == 'arg+target':
            os.symlink(src, os.path.join(scratch, 'link-to-src'))
            args = [os.path.join(scratch, 'link-to-src'), src]
            if r.random() < 0.5:
                args.reverse()
        else:
            raise ValueError(shape)
        return args, cwd

    @staticmethod
    def _expected_records(args, cwd):
        """Ground truth: recorded absolute path -> (bytes, mtime_ns).  Arguments are resolved;
        directory entries below a directory argument are not."""
        exp = {}
        for a in args:
            full = os.path.realpath(os.path.join(cwd, a))
            if os.path.isdir(full):
                for dirpath, dirnames, filenames in os.walk(full, followlinks=True):
                    for fn in filenames:
                        p = os.path.join(dirpath, fn)
                        if os.path.isfile(p):       # follows symlinks; dangling ones are skipped
                            with open(p, 'rb') as f:
                                exp[p] = (f.read(), os.stat(p).st_mtime_ns)
            elif os.path.isfile(full):
                with open(full, 'rb') as f:
                    exp[full] = (f.read(), os.stat(full).st_mtime_ns)
        return exp

    def _run(self, case, scratch):
        from .. import rep, membackend, refimpl
        from replicat.backends.local import Local

        r, src, files = self._build_tree(case, scratch)
        args, cwd = self._arguments(case, r, scratch, src, files)
        os.chdir(cwd)
        expected = self._expected_records(args, cwd)
        target = os.path.join(scratch, 'target')
        os.makedirs(target)

        # pre-existing target state
        pre, untouched = case['pre'], {}
        exp_paths = sorted(expected)
        pr = random.Random(case['seed'] + 99)
        for k, p in enumerate(exp_paths):
            mode = pre if pre != 'mixed' else pr.choice(['none', 'longer', 'shorter', 'samelen'])
            if mode in ('none', 'elsewhere') or (pre != 'mixed' and k % 2 == 1 and len(exp_paths) > 1):
                continue
            data = expected[p][0]
            if mode == 'longer':
                old = pr.randbytes(len(data) + pr.choice([1, 3, 4, 1000]))
            elif mode == 'shorter':
                old = pr.randbytes(max(len(data) - pr.choice([1, 4, len(data)]), 0))
            else:
                old = bytes(b ^ 0x5A for b in data)
            tp = os.path.join(target, p.lstrip('/'))
            os.makedirs(os.path.dirname(tp), exist_ok=True)
            with open(tp, 'wb') as f:
                f.write(old)
            if mode == 'samelen' and pr.random() < 0.5:
                # a damaged earlier copy that kept its timestamp (cp -p, touch -r): same size, same mtime, other bytes
                os.utime(tp, ns=(1, expected[p][1]))
        if pre in ('elsewhere', 'mixed'):
            up = os.path.join(target, 'unrelated', 'keep-me')
            os.makedirs(os.path.dirname(up))
            with open(up, 'wb') as f:
                f.write(b'do not touch')
            os.utime(up, ns=(77, 424242424242))
            untouched[os.path.relpath(up, target)] = (b'do not touch', 424242424242)

        # backend
        store = None
        if case['backend'] == 'local':
            backend = Local(os.path.join(scratch, 'repo'))
        else:
            store = membackend.Store(case['seed'])
            backend = membackend.make_backend(store, 'async' if case['backend'] == 'amem' else 'sync')

        violations, counters = [], {}
        rate = case['rate_limit']

        async def go():
            _, key, _ = await rep.init(backend, case['settings'], concurrent=case['concurrent'])
            repo = await rep.unlocked(backend, key, concurrent=case['concurrent'])
            with rep.capture():
                snap = await repo.snapshot(paths=[Path(a) for a in args], rate_limit=rate)
            repo2 = await rep.unlocked(backend, key, concurrent=case['concurrent'])
            with rep.capture():
                res = await repo2.restore(path=Path(target), rate_limit=rate)
            return key, snap, res

        try:
            key, snap, res = asyncio.run(go())
        except Exception as e:
            import traceback
            return {'verdict': 'violated', 'classes': [], 'counters': counters,
                    'violations': [{'what': f'snapshot/restore raised {type(e).__name__}: {e}',
                                    'mechanism': None,
                                    'witness': {'args': args, 'trace': traceback.format_exc()[-2500:],
                                                'files': [(f['rel'], f['recipe']) for f in files][:20]}}]}

        # -- oracle 1: restore().files multiset ---------------------------------------------------
        listed = sorted(res.files or []) if res is not None else []
        if listed != sorted(expected):
            violations.append({'what': 'restore() reported paths differ from the recorded-path ground truth',
                               'mechanism': None,
                               'witness': {'missing': sorted(set(expected) - set(listed))[:5],
                                           'extra': sorted(set(listed) - set(expected))[:5],
                                           'duplicates': [p for p in set(listed) if listed.count(p) > 1][:5]}})
        # -- oracle 2: full walk of the target ------------------------------------------------------
        got = gen.walk_tree(target)
        want = {p.lstrip('/'): v for p, v in expected.items()}
        want.update(untouched)
        counters['files_compared'] = len(want)
        counters['bytes_compared'] = sum(len(v[0]) for v in want.values())
        for rel in sorted(set(want) | set(got)):
            if rel not in got:
                violations.append({'what': f'file missing after restore: {rel!r}', 'mechanism': None,
                                   'witness': {'size': len(want[rel][0])}})
            elif rel not in want:
                violations.append({'what': f'unexpected file after restore: {rel!r}', 'mechanism': None,
                                   'witness': {'size': len(got[rel][0]) if isinstance(got[rel][0], bytes) else None}})
            else:
                (gb, gm), (wb, wm) = got[rel], want[rel]
                if gb != wb:
                    first = next((i for i, (x, y) in enumerate(zip(gb, wb)) if x != y), min(len(gb), len(wb))) \
                        if isinstance(gb, bytes) else -1
                    violations.append({'what': f'content differs after restore: {rel!r} '
                                               f'(got {len(gb)} bytes, want {len(wb)}, first diff at {first})',
                                       'mechanism': None, 'witness': {}})
                elif gm != wm:
                    violations.append({'what': f'mtime differs after restore: {rel!r} got {gm} want {wm}',
                                       'mechanism': None, 'witness': {}})
            if len(violations) > 6:
                break

        # -- oracle 3: snapshot return value / reference restore ------------------------------------
        try:
            if store is not None:
                objects = store.snapshot_objects()
            else:
                objects = {}
                base = os.path.join(scratch, 'repo')
                for dp, _, fns in os.walk(base):
                    for fn in fns:
                        full = os.path.join(dp, fn)
                        with open(full, 'rb') as f:
                            objects[os.path.relpath(full, base)] = f.read()
            ref = refimpl.Ref(objects['config'], key, rep.PASSWORD)
            entries = snap.data['files']
            seen_paths = [e['path'] for e in entries]
            if sorted(seen_paths) != sorted(expected):
                violations.append({'what': 'snapshot manifest paths differ from ground truth', 'mechanism': None,
                                   'witness': {'missing': sorted(set(expected) - set(seen_paths))[:5],
                                               'extra': sorted(set(seen_paths) - set(expected))[:5],
                                               'dups': len(seen_paths) - len(set(seen_paths))}})
            for e in entries:
                if e['path'] not in expected:
                    continue
                wb, wm = expected[e['path']]
                if e.get('digest') != ref.hash(wb):
                    violations.append({'what': f'file entry digest wrong/missing for {e["path"]!r}',
                                       'mechanism': None, 'witness': {}})
                if not e.get('metadata') or e['metadata'].get('st_mtime_ns') != wm:
                    violations.append({'what': f'file entry metadata wrong/missing for {e["path"]!r}',
                                       'mechanism': None, 'witness': {'metadata': e.get('metadata')}})
                got_ref = ref.restore_file(e, snap.chunks, objects.__getitem__)
                counters['ref_restores'] = counters.get('ref_restores', 0) + 1
                if got_ref != wb:
                    violations.append({'what': f'recorded ranges do not tile {e["path"]!r}: reference restore '
                                               f'gives {len(got_ref)} bytes, file has {len(wb)}',
                                       'mechanism': None,
                                       'witness': {'refs': sorted(e['chunks'], key=lambda c: c['counter'])[:8]}})
                if len(violations) > 8:
                    break
        except (refimpl.FormatError, KeyError) as e:
            violations.append({'what': f'reference reader failed: {type(e).__name__}: {e}', 'mechanism': None,
                               'witness': {}})

        sizes = sorted({f['size_class'] for f in files})
        names = sorted({f['name_class'] for f in files})
        sc = gen.settings_class(case['settings'])
        classes = [f"{case['shape']}|{case['pre']}|{sc}|{case['backend']}|c{case['concurrent']}"]
        classes += [f"size:{s}|{sc.split('/')[1]}" for s in sizes]
        classes += [f"name:{n}|{case['shape']}" for n in names]
        classes += [f"kind:{case['kind']}|{case['backend']}"]
        if violations:
            for v in violations:
                v['witness'].update({'args': args, 'shape': case['shape'], 'pre': case['pre'],
                                     'settings': case['settings']})
            return {'verdict': 'violated', 'classes': classes, 'counters': counters,
                    'violations': violations[:6]}
        return {'verdict': 'held', 'classes': classes, 'counters': counters, 'violations': []}
