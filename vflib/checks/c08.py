"""C08 - garbage collection is complete and confined to the caller's own data."""
import asyncio
import random

from .. import gen
from ..harness import CheckBase


class Check(CheckBase):
    property_id = 'C08'
    evaluations_counter = 'histories'
    level = 'exploration'
    rule = ('histories over several key families (owner/shared/clone/independent or unencrypted) mixing snapshot, delete, clean '
            'with INTERRUPTED snapshots (snapshot object upload fails for good, or the k-th chunk upload fails) and interrupted '
            'deletes (k-th chunk deletion fails), which leave orphaned chunks; foreign objects planted outside data/ and '
            'snapshots/. Oracles: after every completed delete, no chunk that was referenced only by the deleted snapshots '
            'remains; after every completed clean by user u, chunk objects of family(u) == locations referenced by the '
            'remaining snapshot objects of family(u) (independent reader); objects of every other family, config and foreign '
            'objects byte-identical before/after both commands; location builder/parser are mutually inverse on every call; the same '
            'oracles around `replicat delete <printed name> -y`, a delete of somebody else\'s snapshot and `replicat clean` run as child '
            'processes on a local repository (directory images before/after). '
            'class = (key-graph class, encrypted?, flavour, had-orphans?, command)')
    assumptions = ['the chunk and snapshot areas contain only objects written by replicat (property text)',
                   'vflib/refimpl.py decodes the format correctly (cross-checked by C14)']
    case_timeout = 300

    def generate(self):
        quick = self.tier == 'quick'
        n = 64 if quick else 10000
        cases = []
        for i in range(n):
            r = random.Random(f'C08/{self.seed}/{i}')
            enc = (i % 4) != 3
            cases.append({
                'seed': r.randrange(1 << 30),
                'settings': gen.gen_settings(r, encrypted=enc,
                                             chunker=r.choice([(8, 64), (4, 64), (16, 257), (4, 4), (5, 10), (12, 12)])),
                'flavour': 'async' if i % 2 else 'sync',
                'nops': r.randint(8, 16) if quick else r.randint(8, 36),
                'concurrent': r.choice([1, 2, 3, 5]),
            })
        # deletes that remove ~1000 chunks at once (storage shards collide, batches are large)
        for i in range(6 if quick else 60):
            r = random.Random(f'C08/{self.seed}/big/{i}')
            cases.append({'kind': 'big-delete', 'seed': r.randrange(1 << 30), 'flavour': 'async' if i % 2 else 'sync',
                          'settings': gen.gen_settings(r, encrypted=(i % 3 != 2), chunker=(12, 12)),
                          'concurrent': r.choice([1, 3, 5, 16])})
        # delete / clean through the program entry point, bracketed by images of the repository directory
        for i in range(8 if quick else 240):
            cases.insert(i, {'kind': 'cli', 'seed': random.Random(f'C08/{self.seed}/cli/{i}').randrange(1 << 30), 'timeout': 900})
        return cases

    def worker_setup(self):
        from .. import hist  # noqa: F401

    def floors(self, agg):
        c = agg['counters']
        q = self.tier == 'quick'
        unmet = []
        done = c.get('deletes_checked', 0) + c.get('cleans_checked', 0)
        if done < (100 if q else 3000):
            unmet.append(f'delete/clean completions checked {done} below floor')
        if c.get('cleans_from_orphan_state', 0) < (20 if q else 400):
            unmet.append(f'cleans starting from an orphan-carrying state {c.get("cleans_from_orphan_state", 0)} below floor')
        if c.get('location_roundtrips', 0) < 1000:
            unmet.append('location builder/parser contract evaluated fewer than 1000 times')
        if c.get('other_family_images_compared', 0) < (20 if q else 400):
            unmet.append('too few before/after comparisons of other families')
        if c.get('big_deletes', 0) < (8 if q else 80):
            unmet.append('too few deletes of ~1000 chunks')
        return unmet

    def _big_delete(self, case):
        from .. import hist
        r = random.Random(case['seed'])
        enc = case['settings'].get('encryption') is not None
        world = hist.World(case['seed'], case['settings'], case['flavour'], case['concurrent'],
                           ['owner', ('shared', 0)] if enc else ['owner'], latency=False)

        async def go():
            await world.setup()
            shared = r.randbytes(2400)
            a = await world.snapshot('u0', {'big': r.randbytes(12_000), 'shared': shared})
            b = await world.snapshot(sorted(world.users)[-1], {'other': r.randbytes(3_000), 'shared': shared})
            for victim, user in ((a, 'u0'), (b, b.user)):
                ref = world.users[victim.user].ref
                doomed = {ref.chunk_loc(d) for d in victim.digests}
                await world.delete(user, [victim.name])
                world.count('deletes_checked')
                world.count('big_deletes')
                objects = world.store.snapshot_objects()
                still = world.referenced_by_family(objects).get(world.users[user].family, set())
                left = {l for l in doomed if l in objects and l not in still}
                world.count('chunks_doomed', len(doomed))
                if left:
                    world.finding('C08', f'after a delete of {len(doomed)} chunks, {len(left)} chunk(s) referenced only by the deleted '
                                         f'snapshot remain', chunks=sorted(left)[:3])
                world.audit_integrity('C02')
        try:
            asyncio.run(go())
        except Exception as e:
            import traceback
            world.finding('C08', f'history aborted by {type(e).__name__}: {e}', trace=traceback.format_exc()[-1500:])
        finally:
            world.close()
        mine = world.take_findings(('C08',))
        viol = [{'what': f['what'], 'mechanism': None, 'witness': dict(f['witness'], settings=case['settings'])} for f in mine[:3]]
        return {'verdict': 'violated' if viol else 'held', 'classes': [f"big-delete|{'enc' if enc else 'plain'}|{case['flavour']}|c{case['concurrent']}"],
                'counters': dict(world.counters), 'violations': viol}

    def run_case(self, case):
        if case.get('kind') == 'cli':
            from .. import cliflow
            return cliflow.run_case(case['seed'], 'gc')
        if case.get('kind') == 'big-delete':
            return self._big_delete(case)
        from .. import hist, rep
        r = random.Random(case['seed'])
        enc = case['settings'].get('encryption') is not None
        graph = hist.gen_graph(r, enc)
        if enc and 'independent' not in graph and r.random() < 0.6:
            graph.append('independent')
        world = hist.World(case['seed'], case['settings'], case['flavour'], case['concurrent'], graph)
        classes = set()
        contract = _LocationContract(rep.Repository, world)

        def orphans_of(fam, by_family=None, refd=None):
            objects = world.store.snapshot_objects()
            refd = world.referenced_by_family(objects)
            have = {n for n in objects if n.startswith('data/') and world.family_of_location(n) == fam}
            return have - refd.get(fam, set())

        def image_excluding(fam):
            return {n: d for n, d in world.store.snapshot_objects().items()
                    if not ((n.startswith('data/') or n.startswith('snapshots/')) and world.family_of_location(n) == fam)}

        async def go():
            await world.setup()
            world.plant_foreign()
            mn, mx = case['settings']['chunking']['min_length'], case['settings']['chunking']['max_length']
            pool = hist.make_pool(r, mn, mx)
            users = sorted(world.users)
            gcls = hist.graph_class(graph)
            for step in range(case['nops']):
                op = r.choice(['snap'] * 4 + ['isnap'] * 2 + ['del'] * 3 + ['idel'] + ['clean'] * 3)
                if not world.snaps and op in ('del', 'idel'):
                    op = 'snap'
                u = r.choice(users)
                fam = world.users[u].family
                if op == 'snap':
                    await world.snapshot(u, hist.gen_fileset(r, pool))
                elif op == 'isnap':
                    await world.snapshot_interrupted(u, hist.gen_fileset(r, pool),
                                                     r.choice(['no-snapshot-object', 'chunk-upload-fails']))
                elif op in ('del', 'idel'):
                    own = [n for n, s in world.snaps.items() if s.user == u or not world.encrypted]
                    if not own:
                        continue
                    names = r.sample(own, r.randint(1, min(3, len(own))))
                    before_other = image_excluding(fam)
                    pre_orphans = orphans_of(fam)
                    ref = world.users[u].ref
                    doomed = set()
                    for n in names:
                        doomed |= {world.users[world.snaps[n].user].ref.chunk_loc(d) for d in world.snaps[n].digests}
                    if op == 'idel':
                        hits = world.store.fault_hits
                        if await world.delete_interrupted(u, names):
                            continue
                        # the command COMPLETED although a chunk deletion may have failed for good: the
                        # completeness clause applies to it like to any other completed delete
                        if world.store.fault_hits > hits:
                            world.count('deletes_completed_despite_fault')
                    else:
                        await world.delete(u, names)
                    world.count('deletes_checked')
                    objects = world.store.snapshot_objects()
                    still_refd = world.referenced_by_family(objects).get(fam, set())
                    left = {l for l in doomed if l in objects and l not in still_refd}
                    if left:
                        world.finding('C08', f'after delete, {len(left)} chunk(s) referenced only by the deleted snapshots remain',
                                      chunks=sorted(left)[:3], deleted=[n[:12] for n in names])
                    if image_excluding(fam) != before_other:
                        world.finding('C08', 'delete changed objects outside the caller family', by=u)
                    world.count('other_family_images_compared')
                    classes.add(f'{gcls}|{"enc" if enc else "plain"}|{case["flavour"]}|orph={bool(pre_orphans)}|delete')
                elif op == 'clean':
                    before_other = image_excluding(fam)
                    pre_orphans = orphans_of(fam)
                    snaps_before = {n for n in world.store.objects if n.startswith('snapshots/')}
                    await world.clean(u)
                    world.count('cleans_checked')
                    if pre_orphans:
                        world.count('cleans_from_orphan_state')
                        world.count('orphans_present_before_clean', len(pre_orphans))
                    post = orphans_of(fam)
                    if post:
                        world.finding('C08', f'after clean by {u}, {len(post)} unreferenced chunk(s) of its family remain',
                                      chunks=sorted(post)[:3], had_before=len(pre_orphans))
                    if image_excluding(fam) != before_other:
                        a, b = before_other, image_excluding(fam)
                        diff = sorted(k for k in set(a) | set(b) if a.get(k) != b.get(k))[:3]
                        world.finding('C08', 'clean changed objects outside the caller family', by=u, objects=diff)
                    if {n for n in world.store.objects if n.startswith('snapshots/')} != snaps_before:
                        world.finding('C08', 'clean changed the set of snapshot objects', by=u)
                    world.count('other_family_images_compared')
                    classes.add(f'{gcls}|{"enc" if enc else "plain"}|{case["flavour"]}|orph={bool(pre_orphans)}|clean')
                world.resolve_overwrites()
                world.audit_integrity('C02')
                world.audit_foreign('C08')
                if len(world.findings) > 6:
                    break
        try:
            asyncio.run(go())
        except Exception as e:
            import traceback
            world.finding('C08', f'history aborted by {type(e).__name__}: {e}', trace=traceback.format_exc()[-2000:])
        finally:
            contract.uninstall()
            world.close()
        counters = dict(world.counters)
        counters['histories'] = 1
        counters['location_roundtrips'] = contract.evaluations
        mine = world.take_findings(('C08',))
        others = [f for f in world.findings if f['prop'] != 'C08']
        counters['findings_for_other_properties'] = len(others)
        viol = [{'what': f['what'], 'mechanism': None, 'witness': dict(f['witness'], graph=graph, settings=case['settings'])}
                for f in mine[:4]]
        return {'verdict': 'violated' if viol else 'held', 'classes': sorted(classes), 'counters': counters,
                'violations': viol, 'note': [o['prop'] + ': ' + o['what'] for o in others[:3]]}


class _LocationContract:
    """I7: every location the commands build must parse back to the (name, tag) it was built from."""

    def __init__(self, cls, world):
        self.cls, self.world, self.evaluations = cls, world, 0
        self.orig_chunk, self.orig_snap = cls.get_chunk_location, cls.get_snapshot_location
        me = self

        def get_chunk_location(self_, *, name, tag):
            loc = me.orig_chunk(self_, name=name, tag=tag)
            me.evaluations += 1
            try:
                back = tuple(self_.parse_chunk_location(loc))
            except Exception as e:
                back = repr(e)
            if back != (name, tag) or not loc.startswith(self_.CHUNK_PREFIX):
                world.finding('C08', 'chunk location builder and parser are not mutually inverse', loc=loc, parsed=back)
            return loc

        def get_snapshot_location(self_, *, name, tag):
            loc = me.orig_snap(self_, name=name, tag=tag)
            me.evaluations += 1
            try:
                back = tuple(self_.parse_snapshot_location(loc))
            except Exception as e:
                back = repr(e)
            if back != (name, tag) or not loc.startswith(self_.SNAPSHOT_PREFIX):
                world.finding('C08', 'snapshot location builder and parser are not mutually inverse', loc=loc, parsed=back)
            return loc

        cls.get_chunk_location, cls.get_snapshot_location = get_chunk_location, get_snapshot_location

    def uninstall(self):
        self.cls.get_chunk_location, self.cls.get_snapshot_location = self.orig_chunk, self.orig_snap
