"""C20 - the bandwidth limit is respected and transparent to the data."""
import asyncio
import io
import os
import random
import shutil
import tempfile
from pathlib import Path

from .. import gen, paths
from ..harness import CheckBase
from ..vclock import Baton, Deadlock, SimpleClock, VLock, Watchdog, worst_window

LIMITS = [4, 7, 1000, 64_000, 10**6, 10**9]
LATENCY = ['zero', 'half', 'equal', 'double', 'random']


class Under(io.BytesIO):
    """Underlying stream whose read/write take virtual time and log the bytes that passed (at return)."""

    def __init__(self, data, clock, latency_fn, log):
        super().__init__(data)
        self.clock, self.latency_fn, self.log = clock, latency_fn, log

    def read(self, size=-1):
        data = super().read(size)
        r = self.latency_fn(len(data))
        if r:
            self.clock.sleep(r)
        self.log.append((self.clock.now, len(data)))
        return data

    def write(self, b):
        n = super().write(b)
        r = self.latency_fn(n)
        if r:
            self.clock.sleep(r)
        self.log.append((self.clock.now, n))
        return n


def _pause_limit(obj):
    """The cap on the sleep debt the limiter carries: the 'fixed burst allowance' in seconds (0.5 s unless the code says otherwise)."""
    v = getattr(obj, 'PAUSE_LIMIT', None)
    return v if isinstance(v, (int, float)) and v > 0 else 0.5


class _ThreadingShim:
    """Stands in for the `threading` module inside replicat.utils while a program runs under the baton."""

    def __init__(self, real, baton):
        self._real, self._baton = real, baton

    def Lock(self):
        return VLock(self._baton)

    def RLock(self):
        return VLock(self._baton, reentrant=True)

    def __getattr__(self, name):
        return getattr(self._real, name)


class Check(CheckBase):
    property_id = 'C20'
    evaluations_counter = 'programs'
    level = 'exploration'
    rule = ('(bound) programs of read or write calls of sizes d <= L/4 (constant, random, bursts, pieces worth under a millisecond, and the sizes the commands derive: '
            'L // (16 N), min 1) through RateLimitedIO.wrap on N in {1,2,5,16} streams sharing one limiter, L in {4,7,1000,64000,1e6,1e9}, '
            'underlying latency r in {0, d/2L, d/L, 2d/L, random}, sleep overshoot in {0, 1ms, 50ms}, run by real threads under a '
            'deterministic virtual-time scheduler (one participant at a time, seeded tie-breaks, scheduler-aware locks in place of '
            'the limiter\'s own); every (virtual time, bytes) at which the underlying read/write returned is logged and the maximum '
            'over ALL windows of bytes - L*T is computed exactly (O(n)); it must not exceed PAUSE_LIMIT*L + N*d_max + overshoot*L '
            '(constants read from the class; derivation in DESIGN.md appendix B); invariant under the limiter\'s lock: debt <= '
            'PAUSE_LIMIT. (transparency) random read/write/seek/tell/truncate programs through the wrapper against io.BytesIO. '
            '(commands) snapshot, restore, upload-objects, download-objects with rate_limit on an in-memory backend under a virtual '
            'clock: transfer sizes <= max(L // (16 N), 1), every payload byte crossing the backend boundary logged, same window bound, '
            'data intact. class = (streams, latency class, limit, direction) / (command, limit)')
    assumptions = ['sizes d <= L/4 (property text); with larger sizes the cap on the debt forgives time by design',
                   'multi-stream runs with non-zero underlying latency are attributed to the known finding only if the same program with '
                   'zero latency holds']
    case_timeout = 300

    def generate(self):
        quick = self.tier == 'quick'
        cases = []
        i = 0
        for n_streams in (1, 2, 5, 16):
            for lat in LATENCY:
                for rep_i in range(4 if quick else 1000):
                    r = random.Random(f'C20/{self.seed}/b/{i}')
                    cases.append({'kind': 'bound', 'seed': r.randrange(1 << 30), 'streams': n_streams, 'latency': lat,
                                  'limit': LIMITS[i % len(LIMITS)], 'direction': 'read' if i % 2 else 'write',
                                  'overshoot': [0.0, 0.0, 0.001, 0.05][i % 4], 'programs': 4})
                    i += 1
        for j in range(24 if quick else 10000):
            r = random.Random(f'C20/{self.seed}/t/{j}')
            cases.append({'kind': 'transparent', 'seed': r.randrange(1 << 30)})
        for j in range(24 if quick else 3000):
            r = random.Random(f'C20/{self.seed}/c/{j}')
            cases.append({'kind': 'command', 'seed': r.randrange(1 << 30),
                          'command': ['snapshot+restore', 'upload-objects', 'download-objects'][j % 3],
                          'limit': [2000, 16_000, 160_000, 1_000_000][j % 4], 'many_small': j % 2 == 0,
                          'flavour': 'async' if (j // 4) % 2 else 'sync'})
        return cases

    def worker_setup(self):
        from .. import rep  # noqa: F401

    def floors(self, agg):
        c = agg['counters']
        unmet = []
        if c.get('programs', 0) < (300 if self.tier == 'quick' else 10000):
            unmet.append(f'programs {c.get("programs", 0)} below floor')
        for n in (1, 2, 5, 16):
            for lat in LATENCY:
                if not any(k.startswith(f'bound|N{n}|{lat}|') for k in agg['classes']):
                    unmet.append(f'(streams={n}, latency={lat}) not exercised')
        if c.get('events', 0) < 20000:
            unmet.append('too few pass-through events')
        if c.get('debt_hook_present', 0) and c.get('debt_invariant_evaluations', 0) < 5000:
            unmet.append('debt invariant evaluated too rarely')
        if c.get('command_runs', 0) < 12:
            unmet.append('too few rate-limited command runs')
        return unmet[:6]

    def run_case(self, case):
        return getattr(self, '_' + case['kind'])(case)

    # -------------------------------------------------------------------------------------------------
    def _run_program(self, case, r, latency_kind, seed):
        """One program: N streams through one limiter under the baton.  Returns (events, info)."""
        import replicat.utils as ru
        L, N, direction = case['limit'], case['streams'], case['direction']
        baton = Baton(seed, overshoot=case['overshoot'])
        orig_time, orig_threading = ru.time, ru.threading
        ru.time = baton
        # every lock the limiter creates (now or lazily) is a scheduler-aware one, wherever it keeps it
        ru.threading = _ThreadingShim(orig_threading, baton)
        limiter = ru.RateLimitedIO(L)
        debt_checks = [0]
        debt_viol = []
        cls = ru.RateLimitedIO
        orig_pr, orig_pw = cls.pause_reads, cls.pause_writes

        # supplementary invariant at a hook, only where this layout of the limiter exists (the window oracle decides)
        def pause_reads(self_, seconds):
            orig_pr(self_, seconds)
            debt = getattr(self_, '_read_sleep_amortised', None)
            if debt is not None:
                debt_checks[0] += 1
                if debt > _pause_limit(self_) + 1e-9:
                    debt_viol.append(debt)

        def pause_writes(self_, seconds):
            orig_pw(self_, seconds)
            debt = getattr(self_, '_write_sleep_amortised', None)
            if debt is not None:
                debt_checks[0] += 1
                if debt > _pause_limit(self_) + 1e-9:
                    debt_viol.append(debt)
        cls.pause_reads, cls.pause_writes = pause_reads, pause_writes
        dmax_allowed = max(L // 4, 1)
        derived = max(L // (16 * N), 1)
        style = r.choice(['derived', 'constant', 'random', 'burst', 'quarter', 'tiny', 'tiny'])
        # pieces worth well under a millisecond each (many small objects, a peer that delivers in dribbles)
        tiny = max(1, L // r.choice([1100, 2000, 5000, 20000]))
        total_target = r.choice([2, 3, 5]) * L if L <= 10**6 else 3 * 10**6
        total_target = max(total_target, 40)
        log = []
        sizes_used = []

        def size(k):
            if style == 'derived':
                return derived
            if style == 'constant':
                return max(1, dmax_allowed // 3)
            if style == 'quarter':
                return dmax_allowed
            if style == 'tiny':
                return tiny
            if style == 'burst':
                return dmax_allowed if (k // 5) % 2 == 0 else 1
            return r.randint(1, dmax_allowed)

        def lat_fn_factory(rr):
            def fn(n):
                if latency_kind == 'zero' or n == 0:
                    return 0.0
                base = n / L
                return {'half': base / 2, 'equal': base, 'double': 2 * base, 'random': rr.random() * 2 * base}[latency_kind]
            return fn
        per_stream = max(total_target // N, 4)
        unit = tiny if style == 'tiny' else max(1, (derived if style == 'derived' else dmax_allowed // 3 or 1))
        cap = max(400, 6000 // N) if style == 'tiny' else 1500
        if per_stream // unit > cap:
            per_stream = cap * unit
        payloads = [random.Random(seed + s).randbytes(min(per_stream, 2_000_000)) for s in range(N)]
        results = [None] * N

        def stream_fn(s):
            rr = random.Random(seed * 31 + s)

            def fn():
                data = payloads[s]
                if direction == 'read':
                    under = Under(data, baton, lat_fn_factory(rr), log)
                    w = limiter.wrap(under)
                    out, k = bytearray(), 0
                    while True:
                        d = size(k)
                        sizes_used.append(d)
                        piece = w.read(d)
                        if not piece:
                            break
                        out += piece
                        k += 1
                    results[s] = bytes(out)
                else:
                    under = Under(b'', baton, lat_fn_factory(rr), log)
                    w = limiter.wrap(under)
                    pos, k = 0, 0
                    while pos < len(data):
                        d = size(k)
                        sizes_used.append(d)
                        n = w.write(data[pos:pos + d])
                        pos += n
                        k += 1
                    results[s] = under.getvalue()
            return fn
        try:
            baton.run([stream_fn(s) for s in range(N)])
        finally:
            ru.time, ru.threading = orig_time, orig_threading
            cls.pause_reads, cls.pause_writes = orig_pr, orig_pw
        events = [(t, n) for t, n in log if n]
        info = {'style': style, 'dmax': max(sizes_used or [1]), 'intact': all(results[s] == payloads[s] for s in range(N)),
                'debt_checks': debt_checks[0], 'debt_viol': debt_viol, 'sleeps': len(baton.sleeps), 'end': baton.now,
                'pause_limit': _pause_limit(limiter), 'debt_hook': hasattr(limiter, '_read_sleep_amortised')}
        return events, info

    def _bound(self, case):
        r = random.Random(case['seed'])
        counters, classes, violations = {'programs': 0, 'events': 0, 'debt_invariant_evaluations': 0}, set(), []
        L, N = case['limit'], case['streams']
        for p in range(case['programs']):
            seed = case['seed'] + p
            rr = random.Random(seed)
            try:
                events, info = self._run_program(case, rr, case['latency'], seed)
            except Deadlock as e:
                violations.append({'what': f'rate-limited streams deadlock under the virtual scheduler: {e}', 'mechanism': None, 'witness': {}})
                break
            except Watchdog as e:
                return {'verdict': 'inconclusive', 'note': str(e), 'classes': [], 'counters': counters, '_recycle': True}
            counters['programs'] += 1
            counters['events'] += len(events)
            counters['debt_invariant_evaluations'] += info['debt_checks']
            counters['debt_hook_present'] = max(counters.get('debt_hook_present', 0), int(info['debt_hook']))
            allowance = info['pause_limit'] * L + N * info['dmax'] + case['overshoot'] * L + 1e-6 * L + 1
            excess, i, j, ev = worst_window(events, L)
            rel = excess / allowance if allowance else 0
            counters['max_excess_over_allowance_permille'] = max(counters.get('max_excess_over_allowance_permille', 0), int(rel * 1000))
            classes.add(f"bound|N{N}|{case['latency']}|L{L}|{case['direction']}|{info['style']}")
            w = {'limit': L, 'streams': N, 'latency': case['latency'], 'direction': case['direction'], 'style': info['style'],
                 'overshoot': case['overshoot'], 'dmax': info['dmax'], 'events': len(events), 'virtual_seconds': info['end']}
            if not info['intact']:
                violations.append({'what': 'bytes delivered through the limiter differ from the bytes supplied', 'mechanism': None, 'witness': w})
            if info['debt_viol']:
                violations.append({'what': f'sleep debt {max(info["debt_viol"]):.3f}s exceeds PAUSE_LIMIT after a pause call',
                                   'mechanism': None, 'witness': w})
            if excess > allowance:
                t0, t1 = ev[i][0], ev[j][0]
                passed = sum(n for t, n in ev[i:j + 1])
                mech = None
                if N > 1 and case['latency'] != 'zero':
                    # counterfactual: the same program with zero underlying latency
                    try:
                        ev0, info0 = self._run_program(case, random.Random(seed), 'zero', seed)
                    except (Deadlock, Watchdog) as e:
                        return {'verdict': 'inconclusive', 'note': f'counterfactual run did not finish: {e}', 'classes': [],
                                'counters': counters, '_recycle': True}
                    allow0 = info0['pause_limit'] * L + N * info0['dmax'] + case['overshoot'] * L + 1e-6 * L + 1
                    if worst_window(ev0, L)[0] <= allow0:
                        mech = 'multi-stream-latency-credit'
                violations.append({'what': f'{passed} bytes passed in a window of {t1 - t0:.4f}s: {passed - L * (t1 - t0):.0f} above L*T, '
                                           f'allowance {allowance:.0f} ({N} stream(s), latency {case["latency"]}, L={L})',
                                   'mechanism': mech, 'witness': dict(w, window=(t0, t1), rate=passed / (t1 - t0) if t1 > t0 else None)})
            if sum(1 for x in violations if not x['mechanism']) > 3:
                break
        violations.sort(key=lambda x: x['mechanism'] is not None)
        kept = [x for x in violations if not x['mechanism']][:3] + [x for x in violations if x['mechanism']][:1]
        return {'verdict': 'violated' if violations else 'held', 'classes': sorted(classes), 'counters': counters,
                'violations': kept}

    # -------------------------------------------------------------------------------------------------
    def _transparent(self, case):
        import replicat.utils as ru
        r = random.Random(case['seed'])
        clock = SimpleClock()
        orig = ru.time
        ru.time = clock
        v = []
        ops_done = 0
        try:
            limiter = ru.RateLimitedIO(r.choice([1000, 10**6, 10**9]))
            init = r.randbytes(r.randint(0, 400))
            real, model = io.BytesIO(init), io.BytesIO(init)
            w = limiter.wrap(real)
            for step in range(120):
                op = r.choice(['read', 'read', 'write', 'write', 'seek', 'tell', 'truncate', 'readall'])
                ops_done += 1
                if op == 'read':
                    n = r.choice([0, 1, 7, 50, 500])
                    a, b = w.read(n), model.read(n)
                elif op == 'readall':
                    a, b = w.read(), model.read()
                elif op == 'write':
                    data = r.randbytes(r.choice([0, 1, 9, 100]))
                    a, b = w.write(data), model.write(data)
                elif op == 'seek':
                    pos, whence = r.choice([(0, 0), (r.randint(0, 300), 0), (0, 2), (-1, 2) if len(model.getvalue()) else (0, 2), (0, 1)])
                    a, b = w.seek(pos, whence), model.seek(pos, whence)
                elif op == 'tell':
                    a, b = w.tell(), model.tell()
                else:
                    size = r.choice([None, 0, r.randint(0, 300)])
                    a, b = (w.truncate(size), model.truncate(size)) if size is not None else (w.truncate(), model.truncate())
                if a != b or real.getvalue() != model.getvalue() or real.tell() != model.tell():
                    v.append({'what': f'{op} through the rate-limited wrapper differs from the same call on the plain stream',
                              'mechanism': None, 'witness': {'step': step, 'wrapper': repr(a)[:80], 'plain': repr(b)[:80],
                                                             'positions': (real.tell(), model.tell())}})
                    break
            # an underlying stream that accepts fewer bytes than offered (raw files, pipes, sockets do): the caller resends the
            # rest by the returned count, and what arrives is what was sent - nothing dropped, duplicated or reordered
            class ShortSink:
                def __init__(self, k):
                    self.k, self.got = k, bytearray()

                def write(self, data):
                    n = min(len(data), r.randint(1, self.k)) if len(data) else 0
                    self.got += bytes(data[:n])
                    return n
            if not v:
                for k in (3, 700, 5000):
                    sink = ShortSink(k)
                    w2 = limiter.wrap(sink)
                    payload = r.randbytes(r.choice([1, 50, 4000, 30_000]))
                    view, guard = memoryview(payload), 0
                    while len(view) and guard < 10 * len(payload) + 10:
                        n = w2.write(view)
                        ops_done += 1
                        guard += 1
                        if not isinstance(n, int) or n < 0 or n > len(view):
                            v.append({'what': f'write through the limiter returned {n!r} for {len(view)} bytes offered', 'mechanism': None, 'witness': {'k': k}})
                            break
                        view = view[n:]
                    if not v and bytes(sink.got) != payload:
                        first = next((i for i, (a, b) in enumerate(zip(sink.got, payload)) if a != b), min(len(sink.got), len(payload)))
                        v.append({'what': f'bytes written through the limiter to a stream with short writes arrive altered: {len(sink.got)} bytes for '
                                          f'{len(payload)} sent, first difference at {first}', 'mechanism': None, 'witness': {'max_accepted_per_write': k}})
                    if v:
                        break
        finally:
            ru.time = orig
        return {'verdict': 'violated' if v else 'held', 'classes': ['transparent'], 'counters': {'transparency_ops': ops_done, 'programs': 1},
                'violations': v}

    # -------------------------------------------------------------------------------------------------
    def _command(self, case):
        """The real commands with rate_limit, one transfer at a time (concurrent=1), virtual clock."""
        import replicat.utils as ru
        from .. import membackend, rep
        r = random.Random(case['seed'])
        L = case['limit']
        scratch = tempfile.mkdtemp(prefix='vf-c20-', dir=paths.scratch_root())
        clock = SimpleClock()
        orig = ru.time
        v, counters = [], {'command_runs': 1, 'programs': 1}
        log = []

        class LoggingMem(membackend.MemBackend, short_name='vfmemlog'):
            """Logs every payload read/write the command performs on the streams it hands to the backend."""

            def upload_stream(self, name, stream, length, chunk_size=128_000):
                parts = []
                while True:
                    piece = stream.read(chunk_size)
                    log.append((clock.now, len(piece), chunk_size))
                    if not piece:
                        break
                    parts.append(bytes(piece))
                self.store.apply('upload_stream', name, b''.join(parts), None)

            def download_stream(self, name, stream, chunk_size=128_000):
                data = self.store.objects[name]
                stream.truncate(len(data))
                for i in range(0, len(data), chunk_size):
                    n = stream.write(data[i:i + chunk_size])
                    log.append((clock.now, n, chunk_size))
        class LoggingAMem(membackend.AsyncMemBackend, short_name='vfamemlog'):
            """The same on a coroutine backend (S3 / B2 style): the commands then pace the streams on the event loop thread."""

            async def upload_stream(self, name, stream, length, chunk_size=128_000):
                parts = []
                while True:
                    piece = stream.read(chunk_size)
                    log.append((clock.now, len(piece), chunk_size))
                    if not piece:
                        break
                    parts.append(bytes(piece))
                    await asyncio.sleep(0)
                self.store.apply('upload_stream', name, b''.join(parts), None)

            async def download_stream(self, name, stream, chunk_size=128_000):
                data = self.store.objects[name]
                stream.truncate(len(data))
                for i in range(0, len(data), chunk_size):
                    n = stream.write(data[i:i + chunk_size])
                    log.append((clock.now, n, chunk_size))
                    await asyncio.sleep(0)
        try:
            ru.time = clock
            store = membackend.Store(case['seed'])
            be = (LoggingAMem if case.get('flavour') == 'async' else LoggingMem)(store)
            src = os.path.join(scratch, 'src')
            os.makedirs(src)
            total = 0
            files = {}
            if case['many_small']:
                # many objects that each fit into one transfer chunk
                for i in range(300):
                    files[f's{i:03d}'] = r.randbytes(r.randint(max(1, L // 40), max(2, L // 18)) if L >= 2000 else r.randint(20, 100))
            else:
                for i in range(4):
                    files[f'f{i}'] = r.randbytes(int(L * r.choice([0.7, 1.1, 1.6])))
            if sum(map(len, files.values())) > 6_000_000:
                files = {k: v_[:400_000] for k, v_ in list(files.items())[:12]}
            for nm, data in files.items():
                Path(src, nm).write_bytes(data)
                total += len(data)
            settings = {'hashing': {'name': 'blake2b', 'length': 16},
                        'chunking': {'min_length': max(4, L // 200), 'max_length': max(8, L // 40) * (8 if not case['many_small'] else 1)},
                        'encryption': None}
            os.chdir(scratch)

            async def go():
                if case['command'] == 'snapshot+restore':
                    _, key, _ = await rep.init(be, settings, concurrent=1)
                    repo = await rep.unlocked(be, key, concurrent=1)
                    with rep.capture():
                        await repo.snapshot(paths=[Path(src)], rate_limit=L)
                    up = list(log)
                    del log[:]
                    repo2 = await rep.unlocked(be, key, concurrent=1)
                    target = os.path.join(scratch, 'target')
                    with rep.capture():
                        await repo2.restore(path=Path(target), rate_limit=L)
                    got = {'/' + k: val[0] for k, val in gen.walk_tree(target).items()}
                    want = {os.path.realpath(os.path.join(src, nm)): d for nm, d in files.items()}
                    if got != want:
                        v.append({'what': 'rate-limited snapshot + restore does not reproduce the data', 'mechanism': None, 'witness': {}})
                    return {'snapshot': up, 'restore': list(log)}
                repo = rep.new_repo(be, 1)
                if case['command'] == 'upload-objects':
                    with rep.capture():
                        await repo.upload_objects([Path('src')], rate_limit=L)
                    for nm, d in files.items():
                        if store.objects.get(f'src/{nm}') != d:
                            v.append({'what': 'rate-limited upload-objects stored other bytes', 'mechanism': None, 'witness': {'name': nm}})
                            break
                    return {'upload-objects': list(log)}
                for nm, d in files.items():
                    store.objects[f'obj/{nm}'] = d
                out = os.path.join(scratch, 'out')
                os.makedirs(out)
                with rep.capture():
                    await repo.download_objects(path=Path(out), rate_limit=L)
                for nm, d in files.items():
                    if Path(out, 'obj', nm).read_bytes() != d:
                        v.append({'what': 'rate-limited download-objects wrote other bytes', 'mechanism': None, 'witness': {'name': nm}})
                        break
                return {'download-objects': list(log)}
            logs = asyncio.run(go())
        finally:
            ru.time = orig
            os.chdir(paths.VERIF)
            shutil.rmtree(scratch, ignore_errors=True)
        derived = max(L // 16, 1)
        classes = []
        for name, entries in logs.items():
            events = [(t, n) for t, n, cs in entries if n]
            counters['events'] = counters.get('events', 0) + len(events)
            classes.append(f'command|{name}|L{L}|{"many-small" if case["many_small"] else "few-large"}|{case.get("flavour", "sync")}')
            if not events:
                continue
            sizes = {cs for _, _, cs in entries}
            if max(sizes) > max(L // 4, 1):
                # larger pieces make a single call owe more than the limiter will ever sleep: the cap forgives the rest
                v.append({'what': f'{name} with rate_limit={L} transfers in pieces of {max(sizes)} bytes, more than a quarter second\'s '
                                  f'worth ({max(L // 4, 1)}); the commands document limit // (16 * concurrency) = {derived}',
                          'mechanism': None, 'witness': {'sizes': sorted(sizes)[:5]}})
            dmax = max(n for _, n in events)
            allowance = _pause_limit(ru.RateLimitedIO) * L + dmax + 1e-6 * L + 1
            excess, i, j, ev = worst_window(events, L)
            if excess > allowance:
                t0, t1 = ev[i][0], ev[j][0]
                passed = sum(n for t, n in ev[i:j + 1])
                v.append({'what': f'{name} with rate_limit={L}: {passed} payload bytes crossed the backend boundary in {t1 - t0:.3f} virtual '
                                  f'seconds ({passed - L * (t1 - t0):.0f} above L*T, allowance {allowance:.0f})', 'mechanism': None,
                          'witness': {'events': len(events), 'total_bytes': sum(n for _, n in events), 'virtual_seconds': clock.now,
                                      'dmax': dmax, 'many_small': case['many_small']}})
        return {'verdict': 'violated' if v else 'held', 'classes': classes, 'counters': counters, 'violations': v[:3]}
