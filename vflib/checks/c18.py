"""C18 - the snapshot cache never changes what a command does."""
import asyncio
import os
import random
import shutil
import tempfile
from pathlib import Path

from .. import gen
from ..harness import CheckBase

COMMANDS = ('list-snapshots', 'list-files', 'restore', 'delete', 'clean', 'snapshot', 'download-objects', 'upload-objects')
STATES = ('empty', 'warm', 'warm-by-family-member', 'warm-by-independent-key', 'shared-with-other-repository',
          'stale-after-add', 'stale-after-delete', 'entry-missing', 'entry-empty', 'entry-prefix-1', 'entry-prefix-half',
          'entry-prefix-len-1', 'all-entries-truncated', 'after-failed-run-with-garbled-download', 'cold-many-concurrent',
          'foreign-garbage-files')


class Check(CheckBase):
    property_id = 'C18'
    evaluations_counter = 'pairs'
    level = 'exploration'
    rule = ('a repository with snapshots by an owner, a same-family (shared) key and an independent key; for every cache state in '
            '{empty, warm, warmed by a family member, warmed by the independent key, shared with a second repository, stale because '
            'another client added / deleted snapshots, one entry missing / empty / cut to 1, half, len-1 bytes, every entry cut, left '
            'by an earlier run whose download returned garbled bytes once, cold with many snapshots loaded concurrently, unrelated '
            'garbage files} x every command in {list-snapshots, list-files, restore, delete, clean, snapshot, download-objects} x acting key: the '
            'command runs on a byte copy of the repository with that cache and, on another copy, with the cache disabled; '
            'exception-or-not, stdout rows, restored tree, reported files and the resulting object set must be equal '
            '(new objects compared by name and decoded content, since nonces differ). class = (state, command, acting key kind)')
    assumptions = ['commands are compared at the semantic level: ciphertext bytes of newly written objects differ between runs by design']
    case_timeout = 400

    def generate(self):
        quick = self.tier == 'quick'
        cases = []
        for i in range(32 if quick else 500):
            r = random.Random(f'C18/{self.seed}/{i}')
            cases.append({'seed': r.randrange(1 << 30), 'flavour': 'async' if i % 2 else 'sync',
                          'settings': gen.gen_settings(r, encrypted=(i % 4 != 3), chunker=r.choice([(8, 64), (16, 257)])),
                          'states_per_case': 7 if quick else 16, 'many': i % 3 == 0})
        return cases

    def worker_setup(self):
        from .. import hist  # noqa: F401

    def floors(self, agg):
        unmet = []
        for st in STATES:
            for cmd in COMMANDS:
                if not any(k.startswith(f'{st}|{cmd}|') for k in agg['classes']):
                    unmet.append(f'pair ({st}, {cmd}) not exercised')
        if agg['counters'].get('entries_mutated', 0) < 100:
            unmet.append('too few cache entries mutated')
        return unmet[:5]

    def run_case(self, case):
        from .. import hist, membackend, rep
        r = random.Random(case['seed'])
        enc = case['settings'].get('encryption') is not None
        graph = ['owner', ('shared', 0), 'independent'] if enc else ['owner', 'same']
        world = hist.World(case['seed'], case['settings'], case['flavour'], 3, graph, latency=False)
        counters, classes, violations = {}, set(), []
        scratch = world.scratch

        def count(k, n=1):
            counters[k] = counters.get(k, 0) + n

        def viol(what, **w):
            violations.append({'what': what, 'mechanism': None, 'witness': dict(w, settings=case['settings'])})

        async def run_command(cmd, user, objects, cache, concurrent=3, garble_once=False, new_files=None, sre=None):
            """One command on a private copy of the repository.  Returns the observation."""
            store = membackend.Store(case['seed'])
            store.objects = dict(objects)
            if garble_once:
                state = {'left': 1}

                def garble(name, data):
                    if name.startswith('snapshots/') and state['left'] and data:
                        state['left'] -= 1
                        return data[:-3] + bytes(3)
                    return data
                store.garble = garble
            be = membackend.make_backend(store, case['flavour'])
            u = world.users[user]
            obs = {'exc': None, 'stdout': '', 'tree': None, 'files': None}
            try:
                repo = await rep.unlocked(be, u.key, u.password, concurrent=concurrent, cache=cache)
                with rep.capture() as cap:
                    if cmd == 'list-snapshots':
                        await repo.list_snapshots(snapshot_regex=sre)
                    elif cmd == 'list-files':
                        await repo.list_files(snapshot_regex=sre)
                    elif cmd == 'restore':
                        target = tempfile.mkdtemp(prefix='t-', dir=scratch)
                        res = await repo.restore(path=Path(target), snapshot_regex=sre)
                        obs['tree'] = {k: v[0] for k, v in gen.walk_tree(target).items()}
                        obs['files'] = sorted(res.files or [])
                        shutil.rmtree(target, ignore_errors=True)
                    elif cmd == 'delete':
                        own = sorted(n for n, s in world.snaps.items() if s.user == user or not enc)
                        await repo.delete_snapshots(own[:1], confirm=False)
                    elif cmd == 'clean':
                        await repo.clean()
                    elif cmd == 'upload-objects':
                        # migrating / repairing: a dump of every object is uploaded with skip_existing into a repository that
                        # lacks some of them (two snapshot objects, one chunk) - whatever the cache holds, those get uploaded
                        dump = tempfile.mkdtemp(prefix='d-', dir=scratch)
                        for n, blob in objects.items():
                            Path(dump, n).parent.mkdir(parents=True, exist_ok=True)
                            Path(dump, n).write_bytes(blob)
                        snaps_ = sorted(n for n in objects if n.startswith('snapshots/'))
                        data_ = sorted(n for n in objects if n.startswith('data/'))
                        for n in snaps_[:1] + snaps_[-1:] + data_[:1]:
                            store.objects.pop(n, None)
                        cwd0 = os.getcwd()
                        os.chdir(dump)
                        try:
                            await repo.upload_objects([Path('snapshots'), Path('data')], skip_existing=True)
                        finally:
                            os.chdir(cwd0)
                            shutil.rmtree(dump, ignore_errors=True)
                        obs['tree'] = {n: bytes(b) for n, b in store.objects.items()}
                    elif cmd == 'download-objects':
                        target = tempfile.mkdtemp(prefix='o-', dir=scratch)
                        await repo.download_objects(path=Path(target))
                        obs['tree'] = {k: v[0] for k, v in gen.walk_tree(target).items()}
                        shutil.rmtree(target, ignore_errors=True)
                    elif cmd == 'snapshot':
                        src = os.path.join(scratch, 'newsrc')
                        if not os.path.exists(src):
                            os.makedirs(src)
                            for rel, data in new_files.items():
                                Path(src, rel).write_bytes(data)
                        res = await repo.snapshot(paths=[Path(src)])
                        obs['files'] = sorted(f['path'] for f in res.data['files'])
                        obs['new_table'] = [bytes(c).hex() for c in res.chunks]
                obs['stdout'] = _normalise(cap.stdout) if cmd == 'list-snapshots' else cap.stdout
            except Exception as e:
                obs['exc'] = type(e).__name__
                obs['exc_text'] = str(e)[:200]
            await asyncio.sleep(0)
            obs['names'] = sorted(n for n in store.objects if not n.startswith('snapshots/')) + \
                [f'<{sum(1 for n in store.objects if n.startswith("snapshots/"))} snapshot objects>']
            obs['old_snapshots'] = sorted(n for n in store.objects if n.startswith('snapshots/') and n in objects)
            return obs

        def same(a, b):
            keys = ('exc', 'stdout', 'tree', 'files', 'names', 'old_snapshots', 'new_table')
            return [k for k in keys if a.get(k) != b.get(k)]

        async def go():
            await world.setup()
            mx = case['settings']['chunking']['max_length']
            pool = hist.make_pool(r, case['settings']['chunking']['min_length'], mx)
            users = sorted(world.users)
            for i in range(r.randint(4, 7)):
                await world.snapshot(r.choice(users), hist.gen_fileset(r, pool, nmax=4), note=f'n{i}')
            if case['many']:
                for i in range(60):
                    await world.snapshot(users[0], {'tiny': r.randbytes(9), f'f{i}': b'%d' % i})
            objects = world.store.snapshot_objects()
            new_files = {'nf1': r.randbytes(3 * mx + 1), 'nf2': pool[0]}

            # a second repository whose cache entries live in the same directory
            other = hist.World(case['seed'] + 1, case['settings'], 'sync', 2, ['owner'], latency=False,
                               scratch=tempfile.mkdtemp(prefix='other-', dir=scratch))
            other.clock.uninstall()
            await other.setup()
            await other.snapshot('u0', {'x': r.randbytes(100)})
            other_objects = other.store.snapshot_objects()

            async def warm(cache, user, objs=None, cmd='list-snapshots', world_=None):
                w = world_ or world
                store = membackend.Store(0)
                store.objects = dict(objs if objs is not None else objects)
                u = w.users[user]
                repo = await rep.unlocked(membackend.make_backend(store, 'sync'), u.key, u.password, concurrent=3, cache=cache)
                with rep.capture():
                    await repo.list_snapshots()

            def entries(cache):
                return sorted(os.path.join(dp, f) for dp, _, fs in os.walk(cache) for f in fs)

            async def prepare(state, actor):
                cache = tempfile.mkdtemp(prefix='cache-', dir=scratch)
                objs = objects
                fam_member = next((x for x in users if x != actor and world.users[x].family == world.users[actor].family), actor)
                indep = next((x for x in users if world.users[x].family != world.users[actor].family), None)
                if state == 'empty':
                    pass
                elif state == 'warm':
                    await warm(cache, actor)
                elif state == 'warm-by-family-member':
                    await warm(cache, fam_member)
                elif state == 'warm-by-independent-key':
                    await warm(cache, indep or actor)
                elif state == 'shared-with-other-repository':
                    await warm(cache, 'u0', other_objects, world_=other)
                    await warm(cache, actor)
                elif state == 'stale-after-add':
                    # warmed before another client added snapshots: cache lacks them
                    older = {k: v for k, v in objects.items() if not k.startswith('snapshots/')
                             or k in sorted(n for n in objects if n.startswith('snapshots/'))[:2]}
                    await warm(cache, actor, older)
                elif state == 'stale-after-delete':
                    await warm(cache, actor)
                    gone = sorted(n for n in objects if n.startswith('snapshots/'))[:2]
                    objs = {k: v for k, v in objects.items() if k not in gone}
                elif state.startswith('entry-') or state == 'all-entries-truncated':
                    await warm(cache, fam_member if r.random() < 0.3 else actor)
                    es = entries(cache)
                    if es:
                        targets = es if state == 'all-entries-truncated' else [r.choice(es)]
                        for e in targets:
                            size = os.path.getsize(e)
                            count('entries_mutated')
                            if state == 'entry-missing':
                                os.unlink(e)
                            else:
                                cut = {'entry-empty': 0, 'entry-prefix-1': 1, 'entry-prefix-half': size // 2,
                                       'entry-prefix-len-1': size - 1, 'all-entries-truncated': r.choice([0, 1, size // 2, size - 1])}[state]
                                os.truncate(e, max(cut, 0))
                elif state == 'after-failed-run-with-garbled-download':
                    # an earlier run saw one garbled download (it failed, or not - that is its business)
                    await run_command('list-snapshots', actor, objects, cache, garble_once=True)
                elif state == 'cold-many-concurrent':
                    pass
                elif state == 'foreign-garbage-files':
                    await warm(cache, actor)
                    Path(cache, 'snapshots').mkdir(exist_ok=True)
                    Path(cache, 'snapshots', 'zz').write_bytes(b'garbage')
                    Path(cache, 'README').write_bytes(b'not a cache entry')
                return cache, objs

            chosen = list(STATES)
            r.shuffle(chosen)
            chosen = [st for st in chosen if st != 'cold-many-concurrent'][:case['states_per_case']]
            if case['many']:
                chosen = ['cold-many-concurrent'] + chosen[:-1]
            for state in chosen:
                for cmd in COMMANDS:
                    actor = r.choice(users)
                    kind = world.users[actor].kind
                    conc = 8 if state == 'cold-many-concurrent' else 3
                    cache, objs = await prepare(state, actor)
                    baseline = await run_command(cmd, actor, objs, None, conc, new_files=new_files)
                    pert = None
                    if state == 'cold-many-concurrent':
                        # many loader threads fill a cold cache at once: perturb their schedule (I2)
                        from .. import sched
                        pert = sched.Perturber(case['seed'], p=0.2, max_sleep=0.002, sync_p=None).install()
                    try:
                        got = await run_command(cmd, actor, objs, cache, conc, new_files=new_files)
                    finally:
                        if pert is not None:
                            pert.uninstall()
                            count('perturbed_cold_loads')
                    count('pairs')
                    classes.add(f'{state}|{cmd}|{kind}')
                    diff = same(baseline, got)
                    if diff:
                        viol(f'{cmd} by {actor} ({kind}) behaves differently with the cache in state "{state}" than without a cache: '
                             f'{diff} differ', without=_brief(baseline, diff), with_cache=_brief(got, diff))
                    else:
                        # ... and once more on the cache this run left behind (a second run must agree as well)
                        again = await run_command(cmd, actor, objs, cache, conc, new_files=new_files)
                        diff = same(baseline, again)
                        if diff and cmd not in ('delete', 'snapshot', 'clean'):
                            viol(f'{cmd} by {actor} ({kind}) behaves differently on its second run with the cache first seen in state '
                                 f'"{state}": {diff} differ', without=_brief(baseline, diff), with_cache=_brief(again, diff))
                    shutil.rmtree(cache, ignore_errors=True)
                    # the same with a snapshot filter that is the full name of one snapshot - one that still exists, or one
                    # another client has deleted meanwhile
                    if cmd in ('list-snapshots', 'list-files', 'restore') and state in ('stale-after-delete', 'warm', 'warm-by-family-member'):
                        all_locs = sorted(n for n in objects if n.startswith('snapshots/'))
                        for loc in (all_locs[0], all_locs[-1]):
                            full = '^' + loc.rpartition('-')[2] + '$' if r.random() < 0.5 else loc.rpartition('-')[2]
                            cache, objs = await prepare(state, actor)
                            baseline = await run_command(cmd, actor, objs, None, conc, sre=full)
                            got = await run_command(cmd, actor, objs, cache, conc, sre=full)
                            count('pairs_with_name_filter')
                            diff = same(baseline, got)
                            if diff:
                                viol(f'{cmd} -S <full snapshot name> by {actor} ({kind}) behaves differently with the cache in state "{state}" '
                                     f'than without a cache: {diff} differ', without=_brief(baseline, diff), with_cache=_brief(got, diff),
                                     snapshot_still_exists=loc in objs)
                            shutil.rmtree(cache, ignore_errors=True)
                    if len(violations) > 4:
                        return
            other.close()
        try:
            asyncio.run(go())
        except Exception as e:
            import traceback
            world.close()
            return {'verdict': 'inconclusive', 'note': traceback.format_exc()[-2000:], 'classes': [], 'counters': counters}
        world.close()
        return {'verdict': 'violated' if violations else 'held', 'classes': sorted(classes), 'counters': counters,
                'violations': violations[:4]}


def _normalise(stdout):
    """Rows of snapshots the caller cannot read carry no timestamp: their mutual order is unspecified (equal sort key).
    Keep the order of the readable rows, sort the others among themselves, ignore column padding."""
    lines = stdout.split('\n')
    rows = [[c.strip() for c in l.split('\t')] for l in lines if l != '']
    readable = [row for row in rows if not (len(row) > 2 and row[2] == '--')]
    hidden = sorted(row for row in rows if len(row) > 2 and row[2] == '--')
    return '\n'.join('\t'.join(row) for row in readable + hidden)


def _brief(obs, keys):
    out = {}
    for k in keys + ['exc', 'exc_text']:
        v = obs.get(k)
        if isinstance(v, dict):
            v = {p: len(d) for p, d in list(v.items())[:4]}
        out[k] = str(v)[:300]
    return out
