"""C14 - what replicat writes follows the documented repository format (both directions)."""
import asyncio
import datetime as _dt
import json
import os
import random
import shutil
import subprocess
import tempfile
from pathlib import Path

from .. import gen, paths
from ..harness import CheckBase

PRIVATE_KEYS = {'shared_key', 'shared_kdf', 'shared_kdf_params', 'mac', 'mac_params', 'chunker_params'}
METADATA_KEYS = {'st_mode', 'st_uid', 'st_gid', 'st_size', 'st_atime_ns', 'st_mtime_ns', 'st_ctime_ns'}
LAYOUTS = ['per-file', 'bytes', 'span', 'shared']


def c14_settings(r, i):
    s = gen.gen_settings(r, encrypted=(i % 3 != 2), chunker=r.choice(gen.CHUNKERS[:8]))
    if s.get('encryption') and s['encryption']['cipher']['name'] == 'aes_gcm' and i % 4 == 1:
        s['encryption']['cipher']['nonce_bits'] = r.choice([64, 96, 128])     # every documented parameter of the cipher
    return s


class Check(CheckBase):
    property_id = 'C14'
    level = 'exploration'
    rule = ('(write) replicat initialises a repository (all hashes x ciphers x key sizes x nonce sizes x KDFs x chunkers, encrypted '
            'or not) and snapshots a generated tree with a note under a controlled clock; an independent reader (vflib/refimpl.py: '
            'hashlib, json, base64, cryptography only) then decodes EVERY stored object and the key strictly: exact key sets of '
            'config / key / private section / snapshot body / data part / file entries / chunk refs / metadata, canonical '
            're-serialisation, names = (hash, MAC) recomputed, chunk key = KDF(shared key, digest), timestamp = the UTC clock '
            'value (also checked in a child process running under a non-UTC TZ), ranges tile each file and the reference '
            'restore equals the source. (read) the independent writer builds repositories with chunk boundaries unlike '
            'replicat\'s own (fixed pieces with shuffled reference order, single-byte chunks, one chunk spanning all files, '
            'several files referencing different ranges of one chunk), with current and pre-1.3 (float seconds) metadata; '
            'replicat must list and restore them exactly, including fractional legacy mtimes. '
            'class = (direction, settings class, layout/legacy)')
    assumptions = ['the documented format is the one pinned by the current tree and README; a change applied consistently to '
                   "replicat's writer and reader is, by the property, a violation"]
    case_timeout = 300

    def generate(self):
        quick = self.tier == 'quick'
        cases = []
        for i in range(130 if quick else 24000):
            r = random.Random(f'C14/{self.seed}/w/{i}')
            cases.append({'dir': 'write', 'seed': r.randrange(1 << 30), 'settings': c14_settings(r, i),
                          'backend': ['mem', 'amem', 'local'][i % 3]})
        for i in range(130 if quick else 24000):
            r = random.Random(f'C14/{self.seed}/r/{i}')
            cases.append({'dir': 'read', 'seed': r.randrange(1 << 30), 'settings': c14_settings(r, i),
                          'layout': LAYOUTS[i % 4], 'legacy': (i // 4) % 2 == 1, 'piece': r.choice([1, 3, 7, 64, 1000])})
        for i in range(4 if quick else 30):
            r = random.Random(f'C14/{self.seed}/tz/{i}')
            cases.append({'dir': 'tz', 'seed': r.randrange(1 << 30), 'tz': ['PDT7', 'XYZ-5:30', 'AAA-13', 'BBB11'][i % 4],
                          'settings': c14_settings(r, 3 * i)})
        return cases

    def worker_setup(self):
        from .. import rep, refimpl, membackend  # noqa: F401

    def floors(self, agg):
        c = agg['counters']
        need = 100 if self.tier == 'quick' else 2000
        unmet = []
        if c.get('repositories_read', 0) < need:
            unmet.append(f'repositories written by replicat and read by the reference: {c.get("repositories_read", 0)} < {need}')
        if c.get('repositories_written', 0) < need:
            unmet.append(f'repositories written by the reference and restored by replicat: {c.get("repositories_written", 0)} < {need}')
        for lay in LAYOUTS:
            for leg in ('legacy', 'current'):
                if not any(k.startswith(f'read|{lay}|{leg}') for k in agg['classes']):
                    unmet.append(f'layout {lay}/{leg} not exercised')
        if c.get('tz_children', 0) < 2:
            unmet.append('timestamp not checked under a non-UTC time zone')
        return unmet[:6]

    def run_case(self, case):
        scratch = tempfile.mkdtemp(prefix='vf-c14-', dir=paths.scratch_root())
        try:
            if case['dir'] == 'write':
                return self._write(case, scratch)
            if case['dir'] == 'tz':
                return self._tz(case, scratch)
            return self._read(case, scratch)
        finally:
            shutil.rmtree(scratch, ignore_errors=True)

    # -- replicat writes, the reference reads -----------------------------------------------------------------------
    def _write(self, case, scratch):
        from .. import membackend, refimpl, rep
        from replicat.backends.local import Local
        r = random.Random(case['seed'])
        s = case['settings']
        mn, mx = s['chunking']['min_length'], s['chunking']['max_length']
        files = gen.gen_tree(r, mn, mx, max_bytes=200_000) or [
            {'rel': ['only'], 'recipe': {'kind': 'random', 'size': mx + 1, 'seed': 1}, 'size_class': 'x', 'name_class': 'ascii',
             'mtime_ns': 7}]
        src = os.path.join(scratch, 'src')
        os.makedirs(src)
        gen.materialise(src, files)
        truth = {os.path.realpath(os.path.join(src, *f['rel'])): (gen.content(f['recipe'], files), f['mtime_ns']) for f in files}
        store = None
        if case['backend'] == 'local':
            backend = Local(os.path.join(scratch, 'repo'))
        else:
            store = membackend.Store(case['seed'])
            backend = membackend.make_backend(store, 'async' if case['backend'] == 'amem' else 'sync')
        clock = rep.Clock(start=_dt.datetime(2031, 12, 31, 23, 59, 58, r.choice([0, 1, 999999, 123456]))).install()
        note = r.choice([None, 'a note', 'nöte ✓ with \n newline', ''])

        async def go():
            _, key, cap = await rep.init(backend, s, concurrent=3)
            repo = await rep.unlocked(backend, key, concurrent=3)
            served = clock.now
            with rep.capture():
                res = await repo.snapshot(paths=[Path(src)], note=note)
            return key, res, cap
        try:
            key, res, init_cap = asyncio.run(go())
        finally:
            clock.uninstall()
        if store is not None:
            objects = store.snapshot_objects()
        else:
            objects = {}
            base = os.path.join(scratch, 'repo')
            for dp, _, fns in os.walk(base):
                for fn in fns:
                    objects[os.path.relpath(os.path.join(dp, fn), base)] = open(os.path.join(dp, fn), 'rb').read()
        v, counters = [], {'repositories_read': 1, 'objects_decoded': 0, 'files_tiled': 0}

        def bad(what, **w):
            v.append({'what': what, 'mechanism': None, 'witness': dict(w, settings=s)})
        try:
            cfg = refimpl.loads(objects['config'])
            if refimpl.dumps(cfg) != objects['config']:
                bad('config is not canonical JSON (separators / byte-string tagging)')
            if not set(cfg) <= {'hashing', 'chunking', 'encryption'} or 'hashing' not in cfg or 'chunking' not in cfg:
                bad('config sections differ from the documented ones', sections=sorted(cfg))
            enc = s.get('encryption') is not None
            if enc != ('encryption' in cfg):
                bad('config encryption section does not reflect the settings')
            if enc:
                k = refimpl.loads(key)
                if set(k) != {'kdf', 'kdf_params', 'private'}:
                    bad('key sections differ from {kdf, kdf_params, private}', keys=sorted(k))
                if not isinstance(k['private'], bytes) or not isinstance(k['kdf_params'], bytes):
                    bad('key private section / salt are not tagged byte strings')
            ref = refimpl.Ref(objects['config'], key, rep.PASSWORD)
            if enc and set(ref.private) != PRIVATE_KEYS:
                bad('private key section has undocumented fields', fields=sorted(ref.private))
            counters['objects_decoded'] += 2
            snaps = [n for n in objects if n.startswith('snapshots/')]
            if snaps != [res.location]:
                bad('unexpected snapshot objects', names=snaps[:3])
            dec = ref.decode_snapshot(res.location, objects[res.location])
            counters['objects_decoded'] += 1
            if not dec['name_ok']:
                bad('snapshot object does not hash to its name')
            if refimpl.snapshot_location(*ref.snapshot_name_tag(ref.hash(objects[res.location]))) != res.location:
                bad('snapshot location is not built from (hash, MAC(hash)) as documented', location=res.location)
            if refimpl.dumps(dec['raw']) != objects[res.location]:
                bad('snapshot object is not the canonical serialisation of {chunks, data}')
            data = dec['data']
            if data is None:
                bad('snapshot data does not decrypt under the user key')
                raise refimpl.FormatError('stop')
            if not set(data) <= {'utc_timestamp', 'files', 'note'} or not {'utc_timestamp', 'files'} <= set(data):
                bad('snapshot data has undocumented fields', fields=sorted(data))
            if (note is None) != ('note' not in data) or (note is not None and data.get('note') != note):
                bad('note is not recorded as given', got=data.get('note'), want=note)
            ts = _dt.datetime.fromisoformat(data['utc_timestamp'])
            expected_ts = clock.now - clock.step
            if ts != expected_ts or data['utc_timestamp'] != str(expected_ts):
                bad('utc_timestamp is not str(UTC now)', got=data['utc_timestamp'], want=str(expected_ts))
            hlen = len(ref.hash(b''))
            table = dec['chunks']
            if any(len(d) != hlen for d in table) or len(set(table)) != len(table):
                bad('chunk table is not a list of distinct content digests', lengths=sorted({len(d) for d in table}))
            referenced = set()
            paths_seen = set()
            for f in data['files']:
                if set(f) != {'path', 'chunks', 'digest', 'metadata'}:
                    bad('file entry has undocumented fields', fields=sorted(f))
                if set(f['metadata'] or {}) != METADATA_KEYS:
                    bad('metadata fields differ from the documented ones', fields=sorted(f['metadata'] or {}))
                want = truth.get(f['path'])
                if want is None:
                    bad('file entry for a path that was not snapshotted', path=f['path'])
                    continue
                paths_seen.add(f['path'])
                got = ref.restore_file(f, table, objects.__getitem__)
                counters['files_tiled'] += 1
                if got != want[0]:
                    bad('recorded ranges do not reproduce the file', path=f['path'], got=len(got), want=len(want[0]))
                if f['digest'] != ref.hash(want[0]):
                    bad('file digest is not the content hash', path=f['path'])
                if f['metadata']['st_mtime_ns'] != want[1] or f['metadata']['st_size'] != len(want[0]):
                    bad('metadata does not describe the file', path=f['path'])
                pos = 0
                for c in sorted(f['chunks'], key=lambda c: c['counter']):
                    referenced.add(c['index'])
                    pos += c['range'][1] - c['range'][0]
            if paths_seen != set(truth):
                bad('file list differs from the snapshotted tree', missing=sorted(set(truth) - paths_seen)[:3])
            chunk_objs = {n for n in objects if n.startswith('data/')}
            want_locs = {ref.chunk_loc(d) for d in table}
            if chunk_objs != want_locs:
                bad('chunk object names are not MAC-derived from the chunk table as documented',
                    extra=sorted(chunk_objs - want_locs)[:2], missing=sorted(want_locs - chunk_objs)[:2])
            for d in table:
                loc = ref.chunk_loc(d)
                if loc in objects:
                    ref.decode_chunk(objects[loc], d)
                    counters['objects_decoded'] += 1
                    nm, tag = refimpl.parse_chunk_location(loc)
                    if not ref.owns_chunk_location(loc):
                        bad('chunk tag is not MAC(name)', location=loc)
            others = [n for n in objects if n != 'config' and not n.startswith(('data/', 'snapshots/'))]
            if others:
                bad('objects outside config / data / snapshots', names=others[:3])
        except refimpl.FormatError as e:
            if str(e) != 'stop':
                bad(f'independent reader cannot decode what replicat wrote: {type(e).__name__}: {e}')
        except (KeyError, ValueError, TypeError) as e:
            import traceback
            bad(f'independent reader cannot decode what replicat wrote: {type(e).__name__}: {e}',
                trace=traceback.format_exc()[-1200:])
        cls = [f'write|{gen.settings_class(s)}|{case["backend"]}',
               f"write|nonce{(s.get('encryption') or {}).get('cipher', {}).get('nonce_bits', 'default')}"]
        return {'verdict': 'violated' if v else 'held', 'classes': cls, 'counters': counters, 'violations': v[:4]}

    # -- the reference writes, replicat reads ---------------------------------------------------------------------------
    def _read(self, case, scratch):
        from .. import membackend, refimpl, rep
        from replicat.utils import FileListColumn as FC
        from replicat.utils import SnapshotListColumn as SC
        r = random.Random(case['seed'])
        s = case['settings']
        enc = s.get('encryption')
        w = refimpl.Writer(s['hashing'], s['chunking'], enc['cipher'] if enc else None, password=rep.PASSWORD,
                           kdf=(dict(enc['kdf']) if enc and enc.get('kdf') else None), rng=r)
        nfiles = r.randint(1, 6)
        files, truth = [], {}
        for i in range(nfiles):
            data = r.randbytes(r.choice([0, 1, 5, 64, 257, 1000, 4097]))
            path = f'/vf/ref/{"dir/" * r.randint(0, 2)}f{i}' + r.choice(['', ' sp', 'é'])
            mt_ns = r.randrange(10**9, 2 * 10**18)
            if case['legacy']:
                # pre-1.3: float seconds; choose values exactly representable so that equality is meaningful
                secs = r.randrange(1, 2_000_000_000) + r.choice([0, 0.5, 0.25, 0.125, 0.75])
                md = {'st_mode': 33188, 'st_uid': 0, 'st_gid': 0, 'st_size': len(data), 'st_atime': secs - 1.5,
                      'st_mtime': secs, 'st_ctime': secs}
                want_mtime = int(secs * 10**9)
            else:
                md = {'st_mode': 33188, 'st_uid': 0, 'st_gid': 0, 'st_size': len(data), 'st_atime_ns': mt_ns - 5,
                      'st_mtime_ns': mt_ns, 'st_ctime_ns': mt_ns}
                want_mtime = mt_ns
            files.append((path, data, md))
            truth[path] = (data, want_mtime)
        ts = str(_dt.datetime(2020, 2, 29, 12, 0, 0, r.choice([0, 5])))
        note = r.choice([None, 'ref note'])
        loc, name = w.put_snapshot(files, ts, note=note, legacy_metadata=case['legacy'], layout=case['layout'],
                                   piece=case['piece'])
        store = membackend.Store(case['seed'])
        store.objects = dict(w.objects)
        backend = membackend.make_backend(store, 'sync')
        v, counters = [], {'repositories_written': 1}

        def bad(what, **wt):
            v.append({'what': what, 'mechanism': None, 'witness': dict(wt, settings=s, layout=case['layout'],
                                                                       legacy=case['legacy'])})
        target = os.path.join(scratch, 'target')

        async def go():
            repo = await rep.unlocked(backend, w.key_bytes, concurrent=3)
            with rep.capture() as cap1:
                await repo.list_snapshots(header=False, columns=[SC.NAME, SC.NOTE, SC.TIMESTAMP, SC.FILE_COUNT])
            repo = await rep.unlocked(backend, w.key_bytes, concurrent=3)
            with rep.capture() as cap2:
                await repo.list_files(header=False, columns=[FC.PATH, FC.DIGEST, FC.MTIME, FC.CHUNK_COUNT])
            repo = await rep.unlocked(backend, w.key_bytes, concurrent=3)
            with rep.capture():
                res = await repo.restore(path=Path(target))
            return cap1.stdout, cap2.stdout, res
        try:
            ls, lf, res = asyncio.run(go())
        except Exception as e:
            import traceback
            bad(f'replicat cannot read a repository that follows the documented scheme: {type(e).__name__}: {e}',
                trace=traceback.format_exc()[-1500:])
            return {'verdict': 'violated', 'classes': [], 'counters': counters, 'violations': v}
        rows = [[c.strip() for c in l.split('\t')] for l in ls.splitlines() if l.strip()]
        if len(rows) != 1 or rows[0][0] != name or rows[0][1] != (note if note is not None else '--') \
                or rows[0][2] != ts[:19] or rows[0][3] != str(nfiles):
            bad('list-snapshots does not show the reference-written snapshot as recorded', rows=rows, want=[name, note, ts[:19], nfiles])
        frows = {tuple(c.strip() for c in l.split('\t'))[0]: [c.strip() for c in l.split('\t')] for l in lf.splitlines() if l.strip()}
        for path, data, md in files:
            row = frows.get(path)
            if row is None:
                bad('list-files misses a file of the reference-written snapshot', path=path)
                continue
            if row[1] != w.hash(data).hex():
                bad('list-files shows a wrong digest', path=path)
            want_dt = _dt.datetime.fromtimestamp(truth[path][1] / 1e9, tz=_dt.timezone.utc).strftime('%Y-%m-%d %H:%M:%S')
            if row[2] != want_dt:
                bad('list-files shows a wrong modification time', path=path, got=row[2], want=want_dt)
        got = gen.walk_tree(target)
        want = {p.lstrip('/'): t for p, t in truth.items()}
        for rel in sorted(set(got) | set(want)):
            if rel not in got or rel not in want:
                bad('restored tree differs from the reference-written snapshot', path=rel, present=rel in got)
            elif got[rel][0] != want[rel][0]:
                bad('restored content differs from the reference-written snapshot', path=rel,
                    got=len(got[rel][0]), want=len(want[rel][0]))
            elif abs(got[rel][1] - want[rel][1]) > 1000:      # float seconds carry ~100 ns at these magnitudes
                bad('restored modification time differs from the recorded one', path=rel, got=got[rel][1], want=want[rel][1])
        if sorted(res.files or []) != sorted(truth):
            bad('restore() does not report exactly the recorded paths')
        cls = [f'read|{case["layout"]}|{"legacy" if case["legacy"] else "current"}|{"enc" if enc else "plain"}',
               f'read|{gen.settings_class(s)}']
        return {'verdict': 'violated' if v else 'held', 'classes': cls, 'counters': counters, 'violations': v[:4]}

    # -- timestamp under a non-UTC zone (fresh process) --------------------------------------------------------------------
    def _tz(self, case, scratch):
        from .. import refimpl, rep
        src = os.path.join(scratch, 'src')
        os.makedirs(src)
        Path(src, 'f').write_bytes(b'x' * 100)
        spec = {'repo': os.path.join(scratch, 'repo'), 'key': os.path.join(scratch, 'key'), 'src': src,
                'settings': case['settings'], 'concurrent': 2}
        before = _dt.datetime.now(_dt.timezone.utc).replace(tzinfo=None)
        p = subprocess.run([paths.PYTHON, '-m', 'vflib.xproc', 'init+snapshot', json.dumps(spec)], capture_output=True,
                           text=True, timeout=120, cwd=str(paths.VERIF), env=dict(os.environ, TZ=case['tz']))
        after = _dt.datetime.now(_dt.timezone.utc).replace(tzinfo=None)
        try:
            out = json.loads(p.stdout.strip().splitlines()[-1])
            assert out['ok'], out
        except Exception as e:
            return {'verdict': 'inconclusive', 'note': f'child failed: {p.stderr[-600:]} {e}', 'classes': [], 'counters': {}}
        key = Path(spec['key']).read_bytes() if os.path.exists(spec['key']) else None
        ref = refimpl.Ref(Path(spec['repo'], 'config').read_bytes(), key, rep.PASSWORD)
        blob = Path(spec['repo'], out['location']).read_bytes()
        data = ref.decode_snapshot(out['location'], blob)['data']
        ts = _dt.datetime.fromisoformat(data['utc_timestamp'])
        v = []
        if not (before - _dt.timedelta(seconds=2) <= ts <= after + _dt.timedelta(seconds=2)):
            v.append({'what': f'utc_timestamp recorded under TZ={case["tz"]} is not UTC', 'mechanism': None,
                      'witness': {'recorded': data['utc_timestamp'], 'utc_between': [str(before), str(after)]}})
        return {'verdict': 'violated' if v else 'held', 'classes': [f'tz|{case["tz"]}'], 'counters': {'tz_children': 1},
                'violations': v}
