"""C16 - every request sent to an S3 service is correctly signed."""
import asyncio
import datetime as _dt
import io
import random

from .. import gen
from ..harness import CheckBase

CLASSES = {
    'unreserved': ['abc', 'A-b_c.d~e', '0123456789'],
    'sub-delims': ["a!b", 'a$b', 'a&b', "a'b", 'a(b)', 'a*b', 'a,b', 'a;b', 'a=b'],
    'space': ['a b', ' lead', 'trail ', 'two  spaces'],
    'plus': ['a+b', '+', 'c++'],
    'percent-lookalike': ['a%41', '%2F', '100%', '%zz', '%'],
    'query-chars': ['a?x=1', 'what?', 'a#frag', '#', 'a?b#c'],
    'quotes': ['a"b', "it's", 'a`b', 'a<b>c', 'a|b', 'a^b', 'a{b}'],
    'backslash': ['a\\b', '\\'],
    'colon-at': ['a:b', 'user@host', 'a[1]'],
    'non-ascii': ['é', 'naïve', '日本語', '😀', 'ё'],
}


def gen_name(r, cls=None):
    cls = cls or r.choice(list(CLASSES))
    segs = []
    for _ in range(r.randint(1, 3)):
        segs.append(r.choice(CLASSES[cls]) if r.random() < 0.7 else r.choice(CLASSES['unreserved']))
    if cls not in ''.join(segs) and True:
        segs[r.randrange(len(segs))] = r.choice(CLASSES[cls])
    segs = [s for s in segs if s not in ('.', '..', '')]
    return '/'.join(segs) or 'x', cls


class _Clock:
    def __init__(self, seq):
        self.seq, self.i, self.reads = seq, 0, 0

    def datetime_class(self):
        clock = self

        def tick():
            clock.reads += 1
            v = clock.seq[min(clock.i, len(clock.seq) - 1)]
            clock.i += 1
            return v

        class _DT(_dt.datetime):
            # whichever way the adapter asks for the time of day
            @classmethod
            def utcnow(cls):
                return tick()

            @classmethod
            def now(cls, tz=None):
                v = tick()
                return v if tz is None else v.replace(tzinfo=_dt.timezone.utc).astimezone(tz)
        # also usable where the adapter imported the module rather than the class
        _DT.datetime, _DT.timezone, _DT.timedelta, _DT.UTC = _DT, _dt.timezone, _dt.timedelta, _dt.timezone.utc
        return _DT

    def time_module(self, real):
        import calendar
        clock = self

        class _T:
            def __getattr__(self, name):
                return getattr(real, name)

            def time(self):
                clock.reads += 1
                v = clock.seq[min(clock.i, len(clock.seq) - 1)]
                clock.i += 1
                return float(calendar.timegm(v.timetuple()))

            def gmtime(self, secs=None):
                return real.gmtime(self.time() if secs is None else secs)
        return _T()


class Check(CheckBase):
    property_id = 'C16'
    evaluations_counter = 'requests_verified'
    level = 'exploration'
    rule = ('S3Compatible and S3 backend objects talk to a fake S3 (httpx transport) that recomputes AWS Signature V4 for EVERY '
            'request from the wire bytes only (raw path and query as sent, header list as sent, body chunks as sent): the path is '
            'percent-decoded and canonically re-encoded, the query decoded the www-form way and re-encoded, signed headers taken '
            'from the headers actually sent, payload hash and Content-Length compared with the body that arrived. Workload: '
            'upload / upload_stream / download / download_stream / exists / delete / list_files over object names and listing '
            'prefixes from ten character classes (unreserved, sub-delims, space, plus, percent look-alikes, ?#, quotes, '
            'backslash, :@[], non-ASCII), multi-page listings with service-chosen continuation tokens containing + / =, payloads '
            'of 0..3c+1 bytes as bytes and as streams (chunk size c), hosts with upper case / explicit default and non-default '
            'ports, regions, credentials with / + =, clocks that cross midnight and year ends between two requests of one '
            'backend object, and retries after 503 / connection loss in mid-body. class = (method, character class in path|query)')
    assumptions = ['the fake service canonicalises like S3: single percent-decoding of the path, "+" in a query string is a space',
                   "names with '.' / '..' / empty segments are path syntax (httpx rewrites them) and are not generated"]
    case_timeout = 300

    def generate(self):
        quick = self.tier == 'quick'
        cases = []
        for i in range(96 if quick else 45000):
            r = random.Random(f'C16/{self.seed}/{i}')
            cases.append({'seed': r.randrange(1 << 30), 'kind': 'S3' if i % 5 == 4 else 'S3C',
                          'host': ['s3.vf.test', 'minio.vf.test:9000', 'S3.VF.Test', 's3.vf.test:443', 'localhost:80'][i % 5] if i % 3 == 0 else 's3.vf.test',
                          'scheme': 'http' if i % 5 == 4 and i % 3 == 0 else 'https',
                          'clock': ['steady', 'midnight', 'new-year'][i % 3], 'faults': i % 4 == 1,
                          'ops': 30 if quick else 80,
                          # a few backends also send one large streamed payload (multi-megabyte chunks and snapshot bodies exist)
                          'big': [None, 8 * 2**20 + 1, 5 * 2**20 + 3, 16 * 2**20 + 5, 33 * 2**20][(i // 8) % 5] if i % 8 == 0 else None})
        return cases

    def worker_setup(self):
        from .. import rep, fakehttp  # noqa: F401
        import replicat.backends.s3c  # noqa: F401

    def floors(self, agg):
        c = agg['counters']
        unmet = []
        if c.get('requests_verified', 0) < (2000 if self.tier == 'quick' else 30000):
            unmet.append(f'requests verified {c.get("requests_verified", 0)} below floor')
        for cls in CLASSES:
            for where in ('path', 'query'):
                if not any(k.endswith(f'|{where}|{cls}') for k in agg['classes']):
                    unmet.append(f'class {cls} not seen in {where}')
        if c.get('retried_requests_verified', 0) < 20:
            unmet.append('too few retried requests verified')
        if c.get('large_streamed_uploads', 0) < 2:
            unmet.append('too few large streamed uploads')
        if c.get('date_changes_within_one_backend', 0) < 10:
            unmet.append('too few date changes within the life of one backend object')
        return unmet[:6]

    def run_case(self, case):
        from .. import fakehttp
        import backoff._async
        import replicat.backends.s3c as s3c
        from replicat.backends.s3 import S3
        r = random.Random(case['seed'])
        key_id = r.choice(['AKIDEXAMPLE', 'key/with/slash', 'k+e=y'])
        secret = r.choice(['wJalrXUtnFEMI/K7MDENG+bPxRfiCYEXAMPLEKEY', 'se/cr+et=', 'plain'])
        region = r.choice(['us-east-1', 'eu-central-1', 'r'])
        bucket = r.choice(['bucket', 'my.bucket-1'])
        if case['kind'] == 'S3':
            backend = S3(bucket, key_id=key_id, access_key=secret, region=region)
        else:
            backend = s3c.S3Compatible(bucket, key_id=key_id, access_key=secret, region=region, host=case['host'],
                                       scheme=case['scheme'])
        faults = []
        if case['faults']:
            for op in ('s3:PUT', 's3:GET', 's3:LIST', 's3:HEAD', 's3:DELETE'):
                faults.append({'op': op, 'nth': r.randrange(0, 4), 'count': r.choice([1, 2]),
                               'kind': r.choice(['status', 'drop-request', 'connect']), 'status': r.choice([500, 503]),
                               'after': r.choice([0, 1, 2])})
            # a service that answers with a redirect (new buckets, other region): whatever the adapter emits next is a request
            # like any other and must be signed for the host and path it goes to
            for op in r.sample(['s3:PUT', 's3:GET', 's3:HEAD', 's3:DELETE', 's3:LIST'], 2):
                target = r.choice([f'https://{bucket}.s3.other-region.vf.test/moved', f'/{bucket}/moved/elsewhere',
                                   f'https://s3.vf.test/{bucket}/moved?x=1'])
                faults.append({'op': op, 'nth': r.randrange(4, 9), 'count': 1, 'kind': 'status', 'status': r.choice([301, 307, 308]),
                               'headers': {'location': target}, 'body': b''})
        svc = fakehttp.FakeS3(bucket, {key_id: secret}, page_size=r.choice([1, 2, 3, 7]), faults=faults)
        fakehttp.attach(backend, svc)
        base = {'steady': _dt.datetime(2024, 5, 17, 12, 0, 0), 'midnight': _dt.datetime(2024, 2, 29, 23, 59, 57),
                'new-year': _dt.datetime(2023, 12, 31, 23, 59, 58)}[case['clock']]
        seq = [base + _dt.timedelta(seconds=i * r.choice([0, 1, 1, 2])) for i in range(600)]
        clock = _Clock(seq)
        orig_dt, s3c.datetime = s3c.datetime, clock.datetime_class()
        orig_time = getattr(s3c, 'time', None)
        if orig_time is not None and hasattr(orig_time, 'gmtime'):
            s3c.time = clock.time_module(orig_time)
        # retry waits are virtual (I5)
        real_asyncio = backoff._async.asyncio

        class _NoSleep:
            def __getattr__(self, name):
                return getattr(real_asyncio, name)

            @staticmethod
            async def sleep(delay, *a, **k):
                await real_asyncio.sleep(0)
        backoff._async.asyncio = _NoSleep()
        counters, classes, violations = {}, set(), []
        model = {}
        c = r.choice([7, 64, 1000])

        async def go():
            names = []
            if case.get('big'):
                data = r.randbytes(1 << 16) * (case['big'] // (1 << 16)) + r.randbytes(case['big'] % (1 << 16))
                name, _ = gen_name(r)
                try:
                    await backend.upload_stream(name, io.BytesIO(data), len(data), 128_000)
                    model[name] = data
                    counters['large_streamed_uploads'] = counters.get('large_streamed_uploads', 0) + 1
                except Exception:
                    counters['ops_failed'] = counters.get('ops_failed', 0) + 1
            for _ in range(case['ops']):
                op = r.choice(['upload', 'upload_stream', 'download', 'download_stream', 'exists', 'delete', 'list', 'list'])
                if op in ('upload', 'upload_stream') or not names:
                    name, cls = gen_name(r)
                    data = r.randbytes(r.choice([0, 1, c - 1, c, c + 1, 3 * c + 1]))
                    try:
                        if op == 'upload_stream':
                            # half of the payload streams deliver short reads (raw files, pipes do): same bytes, other pieces
                            src_stream = gen.ShortReads(data, r.randrange(1 << 30)) if r.random() < 0.5 else io.BytesIO(data)
                            await backend.upload_stream(name, src_stream, len(data), c)
                            if isinstance(src_stream, gen.ShortReads):
                                counters['short_read_streams'] = counters.get('short_read_streams', 0) + 1
                        else:
                            await backend.upload(name, data)
                        model[name] = data
                        names.append(name)
                    except Exception as e:
                        counters['ops_failed'] = counters.get('ops_failed', 0) + 1
                    continue
                name = r.choice(names)
                try:
                    if op == 'download':
                        await backend.download(name)
                    elif op == 'download_stream':
                        await backend.download_stream(name, io.BytesIO(), c)
                    elif op == 'exists':
                        await backend.exists(name if r.random() < 0.7 else name + 'x')
                    elif op == 'delete':
                        await backend.delete(name)
                    else:
                        pfx = r.choice(['', name[:r.randint(1, len(name))], gen_name(r)[0][:3]])
                        [n async for n in backend.list_files(pfx)]
                except Exception as e:
                    counters['ops_failed'] = counters.get('ops_failed', 0) + 1
            await backend.close()
        try:
            asyncio.run(go())
        finally:
            s3c.datetime = orig_dt
            if orig_time is not None:
                s3c.time = orig_time
            backoff._async.asyncio = real_asyncio
        counters['requests_verified'] = svc.verified
        counters['requests_total'] = len(svc.requests)
        counters['list_pages'] = svc.pages
        retried = sum(max(0, n - 1) for n in [svc.attempts.get(o, 0) for o in svc.attempts]) if case['faults'] else 0
        counters['retried_requests_verified'] = sum(1 for q in svc.requests if q.get('fault') is None and 'sig' in q) if case['faults'] else 0
        dates = [q['sig']['date'] for q in svc.requests if 'sig' in q]
        counters['date_changes_within_one_backend'] = sum(1 for a, b in zip(dates, dates[1:]) if a != b)
        for q in svc.requests:
            path, _, query = q['raw_path'].partition(b'?')
            pcls = _classes_of(path.decode('latin-1'), True)
            qcls = _classes_of(query.decode('latin-1'), True)
            for x in pcls:
                classes.add(f"{q['method']}|path|{x}")
            for x in qcls:
                classes.add(f"{q['method']}|query|{x}")
        for q in svc.sig_failures[:3]:
            violations.append({'what': f"S3 request {q['method']} {q['raw_path'][:80]!r} is not correctly signed: "
                                       f"{q['sig_error'].splitlines()[0]}", 'mechanism': _mechanism(q, case),
                               'witness': {'error': q['sig_error'][:1500], 'host': case['host'], 'kind': case['kind'],
                                           'headers': [(k.decode('latin-1'), v.decode('latin-1')[:80]) for k, v in q['headers']
                                                       if k.lower() in (b'host', b'x-amz-date', b'content-length', b'authorization')]}})
        return {'verdict': 'violated' if violations else 'held', 'classes': sorted(classes), 'counters': counters,
                'violations': violations}


def _classes_of(wire, decode):
    from urllib.parse import unquote
    text = unquote(wire.replace('+', ' ')) if decode else wire
    out = set()
    for cls, samples in CLASSES.items():
        if cls == 'unreserved':
            if any(ch.isalnum() for ch in text):
                out.add(cls)
            continue
        chars = set(''.join(samples)) - set('abcdefghijklmnopqrstuvwxyzABCDEFGHIJKLMNOPQRSTUVWXYZ0123456789-_.~=1')
        if cls == 'plus':
            chars = {'+'}
            if '%2B' in wire.upper() or '+' in unquote(wire):
                out.add(cls)
            continue
        if cls == 'space':
            if ' ' in text:
                out.add(cls)
            continue
        if any(ch in text for ch in chars):
            out.add(cls)
    return out


def _mechanism(q, case):
    return None
