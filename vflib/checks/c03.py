"""C03 - interrupted commands leave a consistent, usable repository."""
import asyncio
import json
import os
import random
import shutil
import subprocess
import tempfile
import threading
from pathlib import Path

from .. import gen, paths
from ..harness import CheckBase

COMMANDS = ('snapshot', 'delete', 'clean')


class Truth:
    """What the harness knows about the repository before the interrupted command."""

    def __init__(self):
        self.settings = self.key = self.config = None
        self.password = b'vf-password'
        self.base = {}          # snapshot name -> {recorded path: bytes}
        self.base_loc = {}      # snapshot name -> location
        self.locmap = {}        # chunk location -> digest (every chunk any command here can legitimately write)
        self.ref = None


def write_tree(root, files):
    out = {}
    for rel, data in files.items():
        p = os.path.join(root, rel)
        os.makedirs(os.path.dirname(p), exist_ok=True)
        with open(p, 'wb') as f:
            f.write(data)
        out[os.path.realpath(p)] = data
    return out


class Check(CheckBase):
    property_id = 'C03'
    evaluations_counter = 'states'
    level = 'fault_enumeration'
    rule = ('three fault families over snapshot / delete / clean on a repository that already holds two snapshots sharing '
            'chunks (and, for clean, orphans): (1) LOGICAL CRASH POINTS on in-memory backends (thread and coroutine flavour, '
            'seeded completion orders): every prefix of the recorded mutation sequence of one real run is a state that '
            'existed at some instant; all prefixes when <= 60, else first/last 20 + seeded sample; (2) KILL INSIDE THE LOCAL '
            'BACKEND: a child process runs the command on a copy of the repository directory and dies by os._exit at the k-th '
            'crash point - before every filesystem mutation under the repository (audit hook) and right after every '
            'replace/rename/unlink returned - plus derived states with every temporary file cut to 0/1/half/len-1 bytes; '
            '(3) ONE PERMANENT FAILURE: the k-th backend call of the command raises (every mutating call and every listing / download of a snapshot object, plus a seeded sample of the rest). Every state goes through the follow-up '
            'oracle with fresh Repository objects: every listed snapshot decodes and restores to exactly what was captured '
            '(the interrupted one fully or not at all), every listed object is a complete object (chunk authenticates and '
            'hashes to the digest its name stands for), no listed name is a temporary, a new snapshot of the same data + its '
            'restore + clean succeed, and after clean the chunk objects equal the referenced set; in half of the states clean runs '
            'FIRST, straight after the interruption. '
            'class = (family, command, position class of the crash point, backend flavour)')
    assumptions = ['power-loss durability (no fsync in the code) is not "the process is killed" and is not claimed',
                   'partial write() progress is emulated by truncating temporaries, not by stopping the kernel mid-syscall',
                   'vflib/refimpl.py decodes the format correctly (cross-checked by C14)']
    case_timeout = 600

    def generate(self):
        quick = self.tier == 'quick'
        cases = []
        n_prefix, n_perm, n_kill = (18, 18, 12) if quick else (300, 300, 160)
        for i in range(n_prefix):
            r = random.Random(f'C03/{self.seed}/prefix/{i}')
            cases.append({'family': 'prefix', 'command': COMMANDS[i % 3], 'seed': r.randrange(1 << 30),
                          'flavour': 'async' if (i // 3) % 2 else 'sync', 'concurrent': r.choice([1, 2, 5]),
                          'settings': gen.gen_settings(r, chunker=r.choice([(8, 64), (16, 257), (12, 12)])),
                          'budget': 14 if quick else 60})
        for i in range(n_perm):
            r = random.Random(f'C03/{self.seed}/perm/{i}')
            cases.append({'family': 'permfail', 'command': COMMANDS[i % 3], 'seed': r.randrange(1 << 30),
                          'flavour': 'async' if (i // 3) % 2 else 'sync', 'concurrent': r.choice([1, 1, 2, 5]),
                          'settings': gen.gen_settings(r, chunker=r.choice([(8, 64), (16, 257), (12, 12)])),
                          'budget': 14 if quick else 50})
        for i in range(n_kill):
            r = random.Random(f'C03/{self.seed}/kill/{i}')
            cases.append({'family': 'kill', 'command': COMMANDS[i % 3], 'seed': r.randrange(1 << 30),
                          'flavour': 'local', 'concurrent': r.choice([1, 2, 4]),
                          'settings': gen.gen_settings(r, chunker=r.choice([(8, 64), (64, 1024), (500, 10000)])),
                          'budget': 12 if quick else 80, 'timeout': 900})
        return cases

    def worker_setup(self):
        from .. import rep, refimpl, membackend  # noqa: F401

    def floors(self, agg):
        unmet = []
        c = agg['counters']
        for fam in ('prefix', 'kill', 'permfail'):
            for cmd in COMMANDS:
                if c.get(f'states_{fam}_{cmd}', 0) == 0:
                    unmet.append(f'no state explored for {fam}/{cmd}')
        for pos in ('before-first-mutation', 'between-chunk-mutations', 'between-chunks-and-snapshot-object',
                    'after-snapshot-object'):
            if not any(k.startswith('prefix|snapshot|' + pos) for k in agg['classes']):
                unmet.append(f'snapshot crash position {pos} not explored')
        if c.get('states', 0) < (250 if self.tier == 'quick' else 5000):
            unmet.append(f'crash/failure states explored {c.get("states", 0)} below floor')
        if c.get('kill_after_publish_points', 0) == 0:
            unmet.append('no kill right after a replace/rename/unlink')
        if c.get('followup_restores', 0) < 300:
            unmet.append('too few follow-up restores')
        return unmet[:6]

    # -------------------------------------------------------------------------------------------------
    def run_case(self, case):
        scratch = tempfile.mkdtemp(prefix='vf-c03-', dir=paths.scratch_root())
        try:
            if case['family'] == 'kill':
                return self._kill(case, scratch)
            return self._mem(case, scratch)
        finally:
            shutil.rmtree(scratch, ignore_errors=True)

    # -- building the base repository (any backend) ------------------------------------------------------
    async def _build_base(self, backend, case, r, scratch, truth, extra_orphans=False):
        from .. import rep
        mx = case['settings']['chunking']['max_length']
        shared = r.randbytes(6 * mx + 5)
        trees = [
            {'a': r.randbytes(3 * mx + 1), 'shared': shared, 'd/empty': b'', 'd/z': bytes(2 * mx)},
            {'b': r.randbytes(4 * mx + 2), 'shared': shared, 'd/small': r.randbytes(5)},
        ]
        _, key, _ = await rep.init(backend, case['settings'], concurrent=2)
        truth.settings, truth.key = case['settings'], key
        truth.config = await rep.fetch(backend, 'config')
        for i, files in enumerate(trees):
            src = os.path.join(scratch, f'base{i}')
            recorded = write_tree(src, files)
            repo = await rep.unlocked(backend, key, concurrent=2)
            with rep.capture():
                res = await repo.snapshot(paths=[Path(src)])
            truth.base[res.name] = recorded
            truth.base_loc[res.name] = res.location
            self._learn(truth, repo, res.chunks)
        return trees

    @staticmethod
    def _learn(truth, repo, digests):
        # locations by the documented scheme (independent reader), not by asking the code under test
        from .. import refimpl
        if getattr(truth, 'ref', None) is None:
            truth.ref = refimpl.Ref(truth.config, truth.key, truth.password)
        for d in digests:
            truth.locmap[truth.ref.chunk_loc(bytes(d))] = bytes(d)

    def _pending_tree(self, case, r, scratch):
        mx = case['settings']['chunking']['max_length']
        files = {'new/x': r.randbytes(7 * mx + 3), 'new/y': r.randbytes(2 * mx), 'new/e': b'',
                 'new/dup': None}
        files['new/dup'] = files['new/x']
        src = os.path.join(scratch, 'pending')
        return src, write_tree(src, files)

    # -- the follow-up oracle ------------------------------------------------------------------------------
    async def _follow_up(self, make_backend, raw_objects, truth, pending, pending_src, scratch, counters, label):
        """Returns a list of violation strings (with witnesses)."""
        from .. import refimpl, rep
        out = []

        def bad(what, **w):
            out.append({'what': what, 'mechanism': None, 'witness': dict(w, state=label)})

        backend = make_backend()
        repo = await rep.unlocked(backend, truth.key, concurrent=2)
        listed = await rep.list_names(backend)
        if len(set(listed)) != len(listed):
            bad('listing returns a name twice', names=[n for n in listed if listed.count(n) > 1][:3])
        raw = raw_objects()
        # what exists for the repository is what the backend lists (its own temporaries, whatever they are called, are not)
        objects = {n: raw[n] for n in listed if n in raw}
        objects['config'] = raw['config']
        ref = refimpl.Ref(objects['config'], truth.key, truth.password)
        visible = {}
        for name in listed:
            if name.endswith('.tmp') or '.tmp' in name.rsplit('/', 1)[-1]:
                bad('a temporary object is listed', name=name)
                continue
            blob = objects.get(name)
            if blob is None:
                bad('listed object cannot be read', name=name)
                continue
            counters['objects_checked'] = counters.get('objects_checked', 0) + 1
            if name.startswith('data/'):
                digest = truth.locmap.get(name)
                if digest is None:
                    bad('listed chunk object under a name no command here could have produced', name=name)
                    continue
                try:
                    ref.decode_chunk(blob, digest)
                except refimpl.FormatError as e:
                    bad(f'a partially written / damaged chunk object is observable: {e}', name=name, size=len(blob))
            elif name.startswith('snapshots/'):
                try:
                    dec = ref.decode_snapshot(name, blob)
                    if not dec['name_ok']:
                        raise refimpl.FormatError('snapshot does not hash to its name')
                    visible[ref_name(name)] = (name, dec)
                except refimpl.FormatError as e:
                    bad(f'a partially written / damaged snapshot object is observable: {e}', name=name, size=len(blob))
                except Exception as e:
                    bad(f'a partially written / damaged snapshot object is observable: {type(e).__name__}: {e}', name=name,
                        size=len(blob))
        # every visible snapshot restores completely
        for sname, (loc, dec) in sorted(visible.items()):
            expect = truth.base.get(sname)
            if expect is None:
                expect = pending
                if pending is None:
                    bad('a snapshot nobody took is visible', snapshot=sname[:16])
                    continue
            target = tempfile.mkdtemp(prefix='fu-', dir=scratch)
            try:
                r2 = await rep.unlocked(make_backend(), truth.key, concurrent=2)
                with rep.capture():
                    await r2.restore(snapshot_regex=f'^{sname}$', path=Path(target))
                got = {'/' + k: v[0] for k, v in gen.walk_tree(target).items()}
                counters['followup_restores'] = counters.get('followup_restores', 0) + 1
                if got != expect:
                    diff = sorted(p for p in set(got) | set(expect) if got.get(p) != expect.get(p))[:3]
                    bad('a visible snapshot does not restore to what was captured', snapshot=sname[:16], paths=diff,
                        interrupted=sname not in truth.base)
            except Exception as e:
                bad(f'a visible snapshot cannot be restored: {type(e).__name__}: {e}', snapshot=sname[:16],
                    interrupted=sname not in truth.base)
            finally:
                shutil.rmtree(target, ignore_errors=True)
        if out:
            return out
        # the repository stays usable: snapshot of the same data (dedups against whatever is there), restore, clean -
        # in half of the states clean comes FIRST, straight after the interruption (what a user would do), and the
        # visible snapshots must survive it
        import zlib
        clean_first = zlib.crc32(label.encode()) % 2 == 0

        async def do_clean(stage):
            r5 = await rep.unlocked(make_backend(), truth.key, concurrent=2)
            with rep.capture():
                await r5.clean()
            counters['followup_cleans'] = counters.get('followup_cleans', 0) + 1
            raw = raw_objects()
            listed_all = await rep.list_names(make_backend())
            listed = [n for n in listed_all if n.startswith('data/')]
            refd, _ = refimpl.referenced_locations(ref, {n: raw[n] for n in listed_all if n in raw})
            have = set(listed)
            if have != refd:
                bad(f'after clean ({stage}) the chunk objects differ from the referenced set',
                    orphans=sorted(have - refd)[:3], missing=sorted(refd - have)[:3])
        try:
            if clean_first:
                counters['followup_clean_first'] = counters.get('followup_clean_first', 0) + 1
                await do_clean('straight after the interruption')
                if out:
                    return out
            r3 = await rep.unlocked(make_backend(), truth.key, concurrent=2)
            src = pending_src
            with rep.capture():
                res = await r3.snapshot(paths=[Path(src)])
            self._learn(truth, r3, res.chunks)
            expect = {os.path.realpath(os.path.join(dp, f)): open(os.path.join(dp, f), 'rb').read()
                      for dp, _, fs in os.walk(src) for f in fs}
            target = tempfile.mkdtemp(prefix='fu-', dir=scratch)
            try:
                r4 = await rep.unlocked(make_backend(), truth.key, concurrent=2)
                with rep.capture():
                    await r4.restore(snapshot_regex=f'^{res.name}$', path=Path(target))
                got = {'/' + k: v[0] for k, v in gen.walk_tree(target).items()}
                counters['followup_restores'] = counters.get('followup_restores', 0) + 1
                if got != expect:
                    bad('a snapshot taken after the interruption does not restore correctly (deduplicated against a damaged object?)',
                        paths=sorted(p for p in set(got) | set(expect) if got.get(p) != expect.get(p))[:3])
            finally:
                shutil.rmtree(target, ignore_errors=True)
            await do_clean('after a new snapshot')
        except Exception as e:
            import traceback
            bad(f'the repository is not usable after the interruption: {type(e).__name__}: {e}',
                trace=traceback.format_exc()[-1500:])
        return out

    # -- families 1 and 3: in-memory backends ---------------------------------------------------------------
    def _mem(self, case, scratch):
        from .. import membackend, rep
        r = random.Random(case['seed'])
        truth = Truth()
        counters, classes, violations = {'states': 0}, set(), []
        fam, cmd = case['family'], case['command']
        base_store = membackend.Store(case['seed'])
        base_be = membackend.make_backend(base_store, 'sync')

        async def prepare():
            await self._build_base(base_be, case, r, scratch, truth)
            truth.config = base_store.objects['config']
        asyncio.run(prepare())
        pending_src, pending = self._pending_tree(case, r, scratch)
        base_objects = base_store.snapshot_objects()
        if cmd == 'clean':
            # orphans: the chunks of an interrupted snapshot of the pending tree (everything but the snapshot object)
            st = membackend.Store(1)
            st.objects = dict(base_objects)

            async def orphans():
                repo = await rep.unlocked(membackend.make_backend(st, 'sync'), truth.key, concurrent=2)
                with rep.capture():
                    res = await repo.snapshot(paths=[Path(pending_src)])
                self._learn(truth, repo, res.chunks)
                return res.location
            loc = asyncio.run(orphans())
            base_objects = {k: v for k, v in st.objects.items() if k != loc}
        targets = sorted(truth.base)[: r.choice([1, 1, 2])] if cmd == 'delete' else None

        def new_store(seed):
            st = membackend.Store(seed)
            st.objects = dict(base_objects)
            st.latency = membackend.random_latency(seed, scale=0.001)
            return st

        async def command(store, outcome):
            be = membackend.make_backend(store, case['flavour'])
            try:
                repo = await rep.unlocked(be, truth.key, concurrent=case['concurrent'])
                with rep.capture():
                    if cmd == 'snapshot':
                        res = await repo.snapshot(paths=[Path(pending_src)])
                        self._learn(truth, repo, res.chunks)
                    elif cmd == 'delete':
                        await repo.delete_snapshots(list(targets), confirm=False)
                    else:
                        await repo.clean()
                outcome['result'] = 'returned'
            except BaseException as e:
                outcome['result'] = f'raised {type(e).__name__}'
            # let everything the command started come to rest (a real process would be gone; tasks a failed gather
            # left behind may or may not have run - both are states the follow-up must survive)
            for _ in range(200):
                pending_tasks = [t for t in asyncio.all_tasks() if t is not asyncio.current_task() and not t.done()]
                if not pending_tasks and store.in_flight == 0:
                    break
                if pending_tasks:
                    await asyncio.wait(pending_tasks, timeout=0.05)
                else:
                    await asyncio.sleep(0.005)

        # a complete reference run: tells the digests of the pending tree and the mutation sequence
        ref_store = new_store(case['seed'])
        oc = {}
        asyncio.run(command(ref_store, oc))
        if oc.get('result') != 'returned':
            return {'verdict': 'violated', 'classes': [], 'counters': counters,
                    'violations': [{'what': f'{cmd} without any fault {oc.get("result")}', 'mechanism': None, 'witness': {}}]}
        pend = pending if cmd == 'snapshot' else None

        def judge(objects, label, cls):
            counters['states'] += 1
            counters[f'states_{fam}_{cmd}'] = counters.get(f'states_{fam}_{cmd}', 0) + 1
            st = membackend.Store(7)
            st.objects = dict(objects)
            t2 = Truth()
            t2.__dict__.update(truth.__dict__)
            t2.locmap = dict(truth.locmap)
            if cmd == 'delete':
                pass
            res = asyncio.run(self._follow_up(lambda: membackend.make_backend(st, 'sync'), st.snapshot_objects, t2,
                                              pend, pending_src, scratch, counters, label))
            classes.add(cls)
            for v in res[:2]:
                v['witness'].update({'command': cmd, 'family': fam, 'flavour': case['flavour'],
                                     'concurrent': case['concurrent'], 'settings': case['settings']})
                violations.append(v)

        if fam == 'prefix':
            runs = 2 if case['budget'] < 30 else 4
            for run in range(runs):
                store = ref_store if run == 0 else new_store(case['seed'] + run)
                if run:
                    oc = {}
                    asyncio.run(command(store, oc))
                muts = store.mutations
                K = len(muts)
                ks = list(range(K + 1))
                per_run = max(4, case['budget'] // runs)
                if len(ks) > per_run:
                    head = ks[:per_run // 3]
                    tail = ks[-(per_run // 3):]
                    mid = r.sample(ks[len(head):-len(tail)], per_run - len(head) - len(tail))
                    ks = sorted(set(head + tail + mid))
                snap_idx = next((i for i, m in enumerate(muts) if m[2].startswith('snapshots/') and m[1] != 'delete'), None)
                for k in ks:
                    objs = membackend.replay_mutations(base_objects, muts, k)
                    if cmd == 'snapshot':
                        if k == 0:
                            pos = 'before-first-mutation'
                        elif snap_idx is not None and k > snap_idx:
                            pos = 'after-snapshot-object'
                        elif snap_idx is not None and k == snap_idx:
                            pos = 'between-chunks-and-snapshot-object'
                        else:
                            pos = 'between-chunk-mutations'
                    else:
                        pos = 'start' if k == 0 else ('end' if k == K else 'middle')
                    judge(objs, f'prefix {k}/{K} of {[(m[1], m[2][:24]) for m in muts[max(0, k - 2):k]]}',
                          f'prefix|{cmd}|{pos}|{case["flavour"]}')
                    if len(violations) > 3:
                        break
                counters['mutation_sequences'] = counters.get('mutation_sequences', 0) + 1
                if len(violations) > 3:
                    break
        else:
            ncalls = ref_store.calls
            ks = list(range(ncalls))
            if len(ks) > case['budget']:
                # mutating calls first (a failing upload / deletion is what leaves a half-done command behind), snapshot
                # objects before chunks; then the head, the tail and a seeded sample of the rest
                mut = sorted((e['call'] for e in ref_store.log if e['op'] in membackend.MUTATING_OPS),
                             key=lambda c: 0)
                snap_mut = [e['call'] for e in ref_store.log if e['op'] in membackend.MUTATING_OPS and str(e['name']).startswith('snapshots/')]
                other_mut = [c for c in mut if c not in snap_mut]
                r.shuffle(other_mut)
                # ... and every read the command bases its decisions on: listings and downloads of snapshot objects (a failed
                # read that is taken for 'nothing there' makes delete / clean remove what is still referenced)
                snap_reads = [e['call'] for e in ref_store.log if e['op'] in ('download', 'download_stream', 'list_files')
                              and str(e['name']).startswith('snapshots/')]
                pick = snap_mut + snap_reads[:12] + other_mut[: max(4, case['budget'] // 2)]
                rest = [k for k in ks if k not in pick]
                pick += rest[:2] + rest[-2:] + r.sample(rest, max(0, min(len(rest), case['budget'] - len(pick) - 4)))
                ks = sorted(set(pick))
            for k in ks:
                store = new_store(case['seed'] + k)
                store.faults = [{'op': None, 'nth': k, 'count': 1}]
                oc = {}
                asyncio.run(command(store, oc))
                failed_op = next((e['op'] for e in store.log if e['outcome'] == 'InjectedFault'), None)
                counters['permanent_failures_injected'] = counters.get('permanent_failures_injected', 0) + (1 if failed_op else 0)
                if failed_op is None:
                    continue
                counters['commands_' + oc['result'].split()[0]] = counters.get('commands_' + oc['result'].split()[0], 0) + 1
                judge(store.snapshot_objects(), f'call {k} ({failed_op}) failed for good; command {oc["result"]}',
                      f'permfail|{cmd}|{failed_op}|{oc["result"].split()[0]}|{case["flavour"]}')
                if len(violations) > 3:
                    break
        res = {'verdict': 'violated' if violations else 'held', 'classes': sorted(classes), 'counters': counters,
               'violations': violations[:4]}
        if threading.active_count() > 150:
            res['_recycle'] = True
        return res

    # -- family 2: kill inside the local backend ---------------------------------------------------------------
    def _kill(self, case, scratch):
        from .. import rep
        from replicat.backends.local import Local
        r = random.Random(case['seed'])
        truth = Truth()
        counters, classes, violations = {'states': 0}, set(), []
        cmd = case['command']
        base_dir = os.path.join(scratch, 'base-repo')
        keyfile = os.path.join(scratch, 'key')

        async def prepare():
            be = Local(base_dir)
            await self._build_base(be, case, r, scratch, truth)
            if truth.key is not None:
                Path(keyfile).write_bytes(truth.key)
        asyncio.run(prepare())
        truth.config = Path(base_dir, 'config').read_bytes()
        pending_src, pending = self._pending_tree(case, r, scratch)
        if cmd == 'clean':
            async def orphans():
                repo = await rep.unlocked(Local(base_dir), truth.key, concurrent=2)
                with rep.capture():
                    res = await repo.snapshot(paths=[Path(pending_src)])
                self._learn(truth, repo, res.chunks)
                os.unlink(os.path.join(base_dir, res.location))
            asyncio.run(orphans())
        targets = sorted(truth.base)[: r.choice([1, 1, 2])] if cmd == 'delete' else None
        if cmd == 'snapshot':
            # digests of the pending tree (same key => same chunks): a complete run on a scratch copy
            tmp = os.path.join(scratch, 'learn')
            shutil.copytree(base_dir, tmp)

            async def learn():
                repo = await rep.unlocked(Local(tmp), truth.key, concurrent=2)
                with rep.capture():
                    res = await repo.snapshot(paths=[Path(pending_src)])
                self._learn(truth, repo, res.chunks)
            asyncio.run(learn())
            shutil.rmtree(tmp)

        def child(workdir, crash_at):
            spec = {'repo': workdir, 'key': keyfile, 'src': pending_src, 'concurrent': case['concurrent'],
                    'names': targets, 'crash_at': crash_at}
            p = subprocess.run([paths.PYTHON, '-m', 'vflib.xproc', cmd, json.dumps(spec)], capture_output=True,
                               text=True, timeout=120, cwd=str(paths.VERIF))
            return p

        # dry run: number and kinds of crash points
        work = os.path.join(scratch, 'work')
        shutil.copytree(base_dir, work)
        p = child(work, None)
        shutil.rmtree(work)
        try:
            info = json.loads(p.stdout.strip().splitlines()[-1])
        except Exception:
            return {'verdict': 'inconclusive', 'note': f'dry run failed: {p.stderr[-800:]}', 'classes': [], 'counters': counters}
        if not info.get('ok'):
            return {'verdict': 'violated', 'classes': [], 'counters': counters,
                    'violations': [{'what': f'{cmd} on the local backend failed without any fault: {info.get("error")}',
                                    'mechanism': None, 'witness': {'trace': info.get('trace')}}]}
        K, kinds = info['crash_points'], info['crash_kinds']
        counters['crash_points_in_command'] = K
        ks = list(range(1, K + 1))
        if len(ks) > case['budget']:
            after = [k for k in ks if kinds[k - 1].startswith('after:')]
            pick = set(ks[:2] + ks[-3:])
            pick |= set(r.sample(after, min(len(after), case['budget'] // 2)))
            rest = [k for k in ks if k not in pick]
            pick |= set(r.sample(rest, max(0, min(len(rest), case['budget'] - len(pick)))))
            ks = sorted(pick)
        pend = pending if cmd == 'snapshot' else None

        def raw_objects_of(d):
            def fn():
                out = {}
                for dp, _, fns in os.walk(d):
                    for f in fns:
                        full = os.path.join(dp, f)
                        with open(full, 'rb') as fh:
                            out[os.path.relpath(full, d)] = fh.read()
                return out
            return fn

        def judge(d, label, cls):
            counters['states'] += 1
            counters[f'states_kill_{cmd}'] = counters.get(f'states_kill_{cmd}', 0) + 1
            t2 = Truth()
            t2.__dict__.update(truth.__dict__)
            t2.locmap = dict(truth.locmap)
            res = asyncio.run(self._follow_up(lambda: Local(d), raw_objects_of(d), t2, pend, pending_src, scratch,
                                              counters, label))
            classes.add(cls)
            for v in res[:2]:
                v['witness'].update({'command': cmd, 'family': 'kill', 'concurrent': case['concurrent'],
                                     'settings': case['settings']})
                violations.append(v)

        for k in ks:
            work = os.path.join(scratch, f'work{k}')
            shutil.copytree(base_dir, work)
            try:
                p = child(work, k)
                if p.returncode != 137:
                    # the schedule differed from the dry run and the command finished (or failed) first
                    counters['kill_point_not_reached'] = counters.get('kill_point_not_reached', 0) + 1
                    continue
                kind = next((l.split()[2] for l in p.stderr.splitlines() if l.startswith('CRASHPOINT')), '?')
                if kind.startswith('after:'):
                    counters['kill_after_publish_points'] = counters.get('kill_after_publish_points', 0) + 1
                tmps = [os.path.join(dp, f) for dp, _, fs in os.walk(work) for f in fs if f.endswith('.tmp')]
                counters['temporaries_left'] = counters.get('temporaries_left', 0) + len(tmps)
                # derived state: the kill came inside a write() - a temporary holds a proper prefix
                if tmps and r.random() < 0.5:
                    t = r.choice(tmps)
                    size = os.path.getsize(t)
                    os.truncate(t, r.choice([0, 1, size // 2, max(size - 1, 0)]))
                    counters['derived_truncated_temporaries'] = counters.get('derived_truncated_temporaries', 0) + 1
                judge(work, f'killed at crash point {k}/{K} ({kind})', f'kill|{cmd}|{kind}|c{case["concurrent"]}')
            finally:
                shutil.rmtree(work, ignore_errors=True)
            if len(violations) > 3:
                break
        return {'verdict': 'violated' if violations else 'held', 'classes': sorted(classes), 'counters': counters,
                'violations': violations[:4]}


def ref_name(location):
    return location.rpartition('-')[2]
