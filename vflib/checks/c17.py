"""C17 - accepted settings always yield a usable repository and working keys."""
import asyncio
import copy
import json
import os
import random
import shutil
import subprocess
import tempfile
from pathlib import Path

from .. import gen, paths
from ..harness import CheckBase

WRONG_KIND = ['aes_gcm', 'chacha20_poly1305', 'scrypt', 'gclmulchunker', 'sha2', 'blake2b', 'md5', '', 'Blake2b']
ODD = [0, -1, 1, 2.5, '64', None, True, 10**9, [], {}]

BASE = {'hashing': {'name': 'blake2b', 'length': 32},
        'chunking': {'min_length': 8, 'max_length': 64},
        'encryption': {'cipher': {'name': 'aes_gcm', 'key_bits': 256}, 'kdf': {'name': 'scrypt', 'n': 4, 'r': 8, 'p': 1}}}


def deviations():
    """Every single-parameter deviation from a small valid base: (label, settings)."""
    out = []

    def dev(label, path, value, base=BASE, drop=False):
        s = copy.deepcopy(base)
        cur = s
        for k in path[:-1]:
            if cur.get(k) is None:
                cur[k] = {}
            cur = cur[k]
        if drop:
            cur.pop(path[-1], None)
        else:
            cur[path[-1]] = value
        out.append((label, s))
    # hashing
    for name in ['blake2b', 'sha2', 'sha3'] + WRONG_KIND:
        s = copy.deepcopy(BASE)
        s['hashing'] = {'name': name}
        out.append((f'hashing.name={name!r}', s))
    for v in [1, 7, 16, 20, 32, 48, 64, 65, 100] + ODD:
        dev(f'hashing.blake2b.length={v!r}', ['hashing', 'length'], v)
    for algo in ('sha2', 'sha3'):
        for v in [224, 256, 384, 512, 255, 513, 128] + ODD:
            s = copy.deepcopy(BASE)
            s['hashing'] = {'name': algo, 'bits': v}
            out.append((f'hashing.{algo}.bits={v!r}', s))
    dev('hashing.unknown-key', ['hashing', 'rounds'], 3)
    dev('hashing.sha2-with-length', ['hashing'], {'name': 'sha2', 'length': 32})
    # chunking
    for mn, mx in [(1, 4), (4, 4), (5, 10), (3, 9), (16, 257), (500, 10000), (0, 4), (0, 0), (8, 4), (3, 3), (1, 1), (1, 3),
                   (5, 7), (6, 7), (9, 11), (-4, 8), (4, -8), (2.0, 8), (4, 8.5), ('4', 8), (4, '8'), (None, 8), (4, None), (True, 8),
                   (4, 10**7), (128000, 5120000)]:
        s = copy.deepcopy(BASE)
        s['chunking'] = {'min_length': mn, 'max_length': mx}
        out.append((f'chunking=({mn!r},{mx!r})', s))
    dev('chunking.only-min', ['chunking'], {'min_length': 4})
    dev('chunking.only-max', ['chunking'], {'max_length': 64})
    for name in WRONG_KIND:
        dev(f'chunking.name={name!r}', ['chunking', 'name'], name)
    dev('chunking.unknown-key', ['chunking', 'window'], 48)
    # cipher
    for name in ['aes_gcm', 'chacha20_poly1305'] + WRONG_KIND[2:]:
        s = copy.deepcopy(BASE)
        s['encryption']['cipher'] = {'name': name}
        out.append((f'cipher.name={name!r}', s))
    for v in [128, 192, 256, 100, 512, 64] + ODD:
        dev(f'cipher.key_bits={v!r}', ['encryption', 'cipher', 'key_bits'], v)
    for v in [96, 64, 128, 104, 56, 8, 100, 1024, 1032] + ODD:
        dev(f'cipher.nonce_bits={v!r}', ['encryption', 'cipher', 'nonce_bits'], v)
    dev('cipher.chacha-with-key_bits', ['encryption', 'cipher'], {'name': 'chacha20_poly1305', 'key_bits': 256})
    dev('cipher.unknown-key', ['encryption', 'cipher', 'mode'], 'gcm')
    # kdf
    for v in [2, 4, 16, 1, 3, 6, 0, -2, 1 << 14] + ODD[3:]:
        dev(f'kdf.scrypt.n={v!r}', ['encryption', 'kdf', 'n'], v)
    for v in [1, 2, 8, 0, -1] + ODD[3:]:
        dev(f'kdf.scrypt.r={v!r}', ['encryption', 'kdf', 'r'], v)
    for v in [1, 2, 0, -1] + ODD[3:]:
        dev(f'kdf.scrypt.p={v!r}', ['encryption', 'kdf', 'p'], v)
    for name in ['scrypt', 'blake2b'] + WRONG_KIND[:5] + ['md5']:
        s = copy.deepcopy(BASE)
        s['encryption']['kdf'] = {'name': name}
        if name == 'scrypt':
            s['encryption']['kdf']['n'] = 4
        out.append((f'kdf.name={name!r}', s))
    dev('kdf.length-given', ['encryption', 'kdf', 'length'], 32)
    dev('kdf.unknown-key', ['encryption', 'kdf', 'salt'], 'x')
    dev('kdf.blake2b+length', ['encryption', 'kdf'], {'name': 'blake2b', 'length': 16})
    # structure
    dev('encryption=None', ['encryption'], None)
    dev('encryption={}', ['encryption'], {})
    dev('encryption=[]', ['encryption'], [])
    dev('encryption.unknown-key', ['encryption', 'mac'], {'name': 'blake2b'})
    dev('encryption.shared_kdf', ['encryption', 'shared_kdf'], {'name': 'blake2b'})
    dev('top.unknown-key', ['compression'], {'name': 'zstd'})
    dev('hashing=None', ['hashing'], None)
    dev('hashing=str', ['hashing'], 'blake2b')
    dev('chunking=list', ['chunking'], [4, 8])
    dev('no-hashing', ['hashing'], None, drop=True)
    dev('no-chunking', ['chunking'], None, drop=True)
    dev('no-cipher', ['encryption', 'cipher'], None, drop=True)
    out.append(('settings={}', {}))
    out.append(('settings=None', None))
    return out


ADD_KEY_VARIANTS = [{'encryption': {'kdf': {'name': 'scrypt', 'n': 2}}}, {'encryption': {'kdf': {'name': 'scrypt', 'n': 4}}}, {'encryption': {'kdf': {'name': 'blake2b'}}},
                    {'encryption': {'kdf': {'name': 'scrypt', 'n': 8, 'r': 2, 'p': 2}}},
                    {'encryption': {'kdf': {'name': 'scrypt', 'n': 3}}}, {'encryption': {'kdf': {'name': 'aes_gcm'}}},
                    {'encryption': {'kdf': {'name': 'scrypt', 'n': 4, 'length': 16}}}, {'encryption': {'cipher': {'name': 'aes_gcm'}}},
                    {'encryption': None}, {'hashing': {'name': 'sha2'}}, {'encryption': {'kdf': {'name': 'scrypt', 'n': '4'}}},
                    {'encryption': {'kdf': {'name': 'scrypt', 'n': 4, 'r': 0}}}]


class Check(CheckBase):
    property_id = 'C17'
    level = 'exploration'
    rule = ('settings dictionaries from a grammar over the documented primitives: every adapter name in every role (incl. adapters '
            'of the wrong kind, unknown names), every documented parameter at {documented values, boundary values, 0, negative, '
            'huge, float, numeric string, None, bool, list, dict}, unknown keys at every level, missing sections, encryption None; '
            'all single-parameter deviations from a valid base are enumerated completely, pairs are seeded. Oracle: init returned '
            'normally => a FRESH Repository object (a fresh interpreter for a sample) unlocks and backs up + restores a 5-file tree '
            '(empty file, multi-chunk file, unaligned sizes) identically; init raised => the backend saw zero mutations (also over an '
            'existing repository: its config stays byte-identical and its key still unlocks). Key chains: add-key '
            'independent/shared/clone/shared-of-shared with KDF variations on long-lived and fresh sessions, then the full '
            'password x key unlock matrix in fresh objects; keys written by `python -m replicat init / add-key` are opened by the independent '
            'reader with their own password, and their secrets compared with what the mode promises. class = (deviated parameter) / (chain shape)')
    assumptions = ['"usable" = unlock + snapshot + restore of a small tree round-trips in a fresh Repository object']
    case_timeout = 300

    def generate(self):
        quick = self.tier == 'quick'
        devs = deviations()
        cases = []
        per = 6
        heavy = [d for d in devs if d[0] in ('encryption={}', 'settings={}', 'settings=None')]     # default-cost scrypt
        light = [d for d in devs if d not in heavy]
        for i, d in enumerate(heavy):
            cases.append({'kind': 'init', 'batch': [d], 'seed': 5000 + i, 'backend': 'mem', 'timeout': 600})
        for i in range(0, len(light), per):
            cases.append({'kind': 'init', 'batch': [(l, s) for l, s in light[i:i + per]], 'seed': i, 'backend': ['mem', 'local'][(i // per) % 2]})
        r = random.Random(f'C17/{self.seed}/pairs')
        npairs = 60 if quick else 9000
        for i in range(0, npairs, per):
            batch = []
            for _ in range(per):
                (l1, s1), (l2, s2) = r.sample(devs, 2)
                if not isinstance(s1, dict) or not isinstance(s2, dict):
                    continue
                s = copy.deepcopy(s1)
                for k, v in s2.items():
                    if v != BASE.get(k):
                        s[k] = copy.deepcopy(v)
                batch.append((f'{l1} + {l2}', s))
            cases.append({'kind': 'init', 'batch': batch, 'seed': 1000 + i, 'backend': 'mem'})
        for i in range(40 if quick else 2400):
            rr = random.Random(f'C17/{self.seed}/chain/{i}')
            cases.append({'kind': 'chain', 'seed': rr.randrange(1 << 30),
                          'settings': gen.gen_settings(rr, encrypted=True, chunker=(8, 64))})
        for i in range(4 if quick else 96):
            cases.append({'kind': 'proc', 'seed': i, 'which': i})
        for i in range(8 if quick else 240):
            cases.insert(i, {'kind': 'cli', 'seed': random.Random(f'C17/{self.seed}/cli/{i}').randrange(1 << 30), 'timeout': 900})
        return cases

    def worker_setup(self):
        from .. import rep, membackend  # noqa: F401

    def floors(self, agg):
        c = agg['counters']
        unmet = []
        ndev = len(deviations())
        if c.get('single_deviations_tried', 0) < ndev:
            unmet.append(f'single-parameter deviations tried {c.get("single_deviations_tried", 0)} < {ndev}')
        if c.get('accepted_and_verified', 0) < 40:
            unmet.append('fewer than 40 accepted settings verified by a round trip')
        if c.get('rejected', 0) < 40:
            unmet.append('fewer than 40 rejected settings checked for zero mutations')
        if c.get('unlock_pairs', 0) < 200:
            unmet.append('too few unlock pairs in key chains')
        if c.get('fresh_process_verifications', 0) < 3:
            unmet.append('too few fresh-process verifications')
        return unmet

    def run_case(self, case):
        scratch = tempfile.mkdtemp(prefix='vf-c17-', dir=paths.scratch_root())
        try:
            if case['kind'] == 'init':
                return self._init(case, scratch)
            if case['kind'] == 'chain':
                return self._chain(case, scratch)
            if case['kind'] == 'cli':
                from .. import cliflow
                return cliflow.run_case(case['seed'], 'keys')
            return self._proc(case, scratch)
        finally:
            shutil.rmtree(scratch, ignore_errors=True)

    # ---------------------------------------------------------------------------------------------------
    @staticmethod
    def _tree(scratch, mx=64):
        r = random.Random(7)
        src = os.path.join(scratch, 'src')
        files = {'empty': b'', 'one': b'x', 'odd': r.randbytes(4 * 37 + 3), 'multi': r.randbytes(_multi_size(mx)),
                 'd/zeros': bytes(1000)}
        truth = {}
        for rel, data in files.items():
            p = os.path.join(src, rel)
            os.makedirs(os.path.dirname(p), exist_ok=True)
            with open(p, 'wb') as f:
                f.write(data)
            truth[os.path.realpath(p)] = data
        return src, truth

    async def _usable(self, make_backend, key, src, truth, scratch, password=b'vf-password'):
        """Fresh objects: unlock, snapshot, restore; returns None or a description of what failed."""
        from .. import rep
        try:
            repo = await rep.unlocked(make_backend(), key, password, concurrent=2)
            with rep.capture():
                res = await repo.snapshot(paths=[Path(src)])
            repo2 = await rep.unlocked(make_backend(), key, password, concurrent=2)
            target = tempfile.mkdtemp(prefix='t-', dir=scratch)
            with rep.capture():
                await repo2.restore(snapshot_regex=f'^{res.name}$', path=Path(target))
            got = {'/' + k: v[0] for k, v in gen.walk_tree(target).items()}
            shutil.rmtree(target, ignore_errors=True)
            if got != truth:
                bad = sorted(p for p in set(got) | set(truth) if got.get(p) != truth.get(p))[:3]
                return f'round trip differs for {[os.path.basename(p) for p in bad]} ' \
                       f'(got {[len(got[p]) if p in got else None for p in bad]}, want {[len(truth[p]) if p in truth else None for p in bad]})'
            return None
        except Exception as e:
            return f'{type(e).__name__}: {e}'

    def _init(self, case, scratch):
        from .. import membackend, rep
        from replicat.backends.local import Local
        counters, classes, violations = {}, set(), []

        def count(k, n=1):
            counters[k] = counters.get(k, 0) + n
        for idx, (label, settings) in enumerate(case['batch']):
            single = ' + ' not in label
            if single:
                count('single_deviations_tried')
            mx = (settings or {}).get('chunking', {}).get('max_length', 64) if isinstance((settings or {}).get('chunking'), dict) else 64
            sub = os.path.join(scratch, f'c{idx}')
            os.makedirs(sub)
            store = membackend.Store(idx)
            local_dir = os.path.join(sub, 'repo')
            if case['backend'] == 'local':
                make_backend = lambda: Local(local_dir)            # noqa: E731
            else:
                make_backend = lambda: membackend.make_backend(store, 'sync')          # noqa: E731
            # half of the rejected-init checks run over an EXISTING repository
            existing = None
            if idx % 2 == 1:
                async def pre():
                    _, k, _ = await rep.init(make_backend(), copy.deepcopy(BASE), concurrent=2)
                    return k
                existing = asyncio.run(pre())
                store.mutations.clear()

            def image():
                if case['backend'] == 'local':
                    return {os.path.relpath(os.path.join(dp, f), local_dir): open(os.path.join(dp, f), 'rb').read()
                            for dp, _, fs in os.walk(local_dir) for f in fs}
                return store.snapshot_objects()
            before = image()

            async def do_init():
                repo = rep.new_repo(make_backend(), 2)
                with rep.capture():
                    res = await repo.init(password=rep.PASSWORD, settings=copy.deepcopy(settings))
                return repo.serialize(res.key) if res.key is not None else None
            try:
                key = asyncio.run(do_init())
                accepted = True
            except Exception as e:
                accepted, err = False, e
            cls_label = label if single else 'pair'
            # the data is sized for the chunker that will actually be in use: the requested one only if it was accepted
            src, truth = self._tree(sub, mx if accepted else 64)
            if not accepted:
                count('rejected')
                classes.add(f'rejected|{cls_label}')
                after = image()
                if after != before or (case['backend'] != 'local' and store.mutations):
                    violations.append({'what': f'init rejected the settings ({type(err).__name__}) but touched the backend',
                                       'mechanism': None,
                                       'witness': {'settings': settings, 'label': label, 'error': str(err)[:200],
                                                   'changed': sorted(k for k in set(after) | set(before) if after.get(k) != before.get(k))[:3],
                                                   'over_existing_repository': existing is not None}})
                elif existing is not None:
                    why = asyncio.run(self._usable(make_backend, existing, src, truth, sub))
                    if why:
                        violations.append({'what': 'after a rejected init the existing repository is no longer usable: ' + why,
                                           'mechanism': None, 'witness': {'settings': settings, 'label': label}})
            else:
                count('accepted')
                why = asyncio.run(self._usable(make_backend, key, src, truth, sub))
                classes.add(f'accepted|{cls_label}')
                if why is None:
                    count('accepted_and_verified')
                else:
                    violations.append({'what': f'init accepted settings that leave the repository unusable [{label}]: {why}',
                                       'mechanism': _mechanism(label, settings, why), 'witness': {'settings': settings, 'label': label}})
            if len(violations) > 8:
                break
        violations.sort(key=lambda x: x['mechanism'] is not None)
        return {'verdict': 'violated' if violations else 'held', 'classes': sorted(classes), 'counters': counters,
                'violations': violations[:8]}

    # ---------------------------------------------------------------------------------------------------
    def _chain(self, case, scratch):
        from .. import membackend, rep
        r = random.Random(case['seed'])
        store = membackend.Store(case['seed'])
        mk = lambda: membackend.make_backend(store, 'sync')        # noqa: E731
        counters, classes, violations = {}, set(), []
        src, truth = self._tree(scratch)

        def count(k, n=1):
            counters[k] = counters.get(k, 0) + n

        async def go():
            _, key0, _ = await rep.init(mk(), case['settings'], password=b'pw0', concurrent=2)
            keys = [('k0', key0, b'pw0', 'owner')]
            session = None
            for i in range(1, r.randint(3, 6)):
                parent = r.choice(keys)
                mode = r.choice(['independent', 'shared', 'clone', 'shared'])
                variant = copy.deepcopy(r.choice(ADD_KEY_VARIANTS))
                pw = f'pw{i}'.encode() if r.random() < 0.8 else parent[2]      # sometimes the SAME password as the parent
                if r.random() < 0.25:
                    pw = f'long-{i}-'.encode() + r.randbytes(r.randint(60, 120))      # longer than any internal key-size limit
                if session is None or r.random() < 0.5:
                    session = rep.new_repo(mk(), 2)
                before = len(store.mutations)
                try:
                    with rep.capture():
                        if mode in ('shared', 'clone') or r.random() < 0.5:
                            await session.unlock(password=parent[2], key=parent[1])
                        res = await session.add_key(password=pw if mode != 'clone' else parent[2], settings=variant,
                                                    shared=mode in ('shared', 'clone'))
                    new_key = session.serialize(res.new_key)
                    keys.append((f'k{i}', new_key, pw if mode != 'clone' else parent[2], f'{mode}-of-{parent[0]}'))
                    count('keys_added')
                    classes.add(f'chain|{mode}|variant={json.dumps(variant, sort_keys=True)[:60]}|accepted')
                except Exception as e:
                    count('add_key_rejected')
                    classes.add(f'chain|{mode}|variant={json.dumps(variant, sort_keys=True)[:60]}|rejected')
                    session = None
                if len(store.mutations) != before:
                    violations.append({'what': 'add-key touched the backend', 'mechanism': None,
                                       'witness': {'mutations': [(m[1], m[2]) for m in store.mutations[before:]][:3]}})
            # unlock matrix in fresh objects + usability of every key
            for name, key, pw, how in keys:
                variants = [('prefix-64-of-' + name, None, pw[:64], ''), ('same-prefix-64-other-tail', None, pw[:64] + b'~' * max(len(pw) - 64, 1), '')] \
                    if len(pw) > 64 else []
                for name2, _, pw2, _ in keys + [('wrong', None, b'definitely-wrong', '')] + variants:
                    repo = rep.new_repo(mk(), 2)
                    try:
                        with rep.capture():
                            await repo.unlock(password=pw2, key=key)
                        ok = True
                    except Exception:
                        ok = False
                    count('unlock_pairs')
                    if ok != (pw2 == pw):
                        violations.append({'what': f'key {name} ({how}) {"unlocks" if ok else "does not unlock"} with the password of {name2}',
                                           'mechanism': None, 'witness': {'chain': [(k[0], k[3]) for k in keys]}})
                why = await self._usable(mk, key, src, truth, scratch, password=pw)
                if why:
                    violations.append({'what': f'key {name} ({how}) produced by add-key does not give a working repository: {why}',
                                       'mechanism': None, 'witness': {'chain': [(k[0], k[3]) for k in keys]}})
                else:
                    count('keys_verified')
        try:
            asyncio.run(go())
        except Exception as e:
            import traceback
            return {'verdict': 'inconclusive', 'note': traceback.format_exc()[-1500:], 'classes': [], 'counters': counters}
        return {'verdict': 'violated' if violations else 'held', 'classes': sorted(classes), 'counters': counters,
                'violations': violations[:4]}

    # ---------------------------------------------------------------------------------------------------
    def _proc(self, case, scratch):
        """init in one interpreter, unlock + snapshot + restore in another (default-cost KDF for one of them)."""
        variants = [
            {'hashing': {'name': 'sha3', 'bits': 224}, 'chunking': {'min_length': 5, 'max_length': 10},
             'encryption': {'cipher': {'name': 'chacha20_poly1305'}, 'kdf': {'name': 'scrypt', 'n': 4}}},
            {'hashing': {'name': 'blake2b', 'length': 16}, 'chunking': {'min_length': 500, 'max_length': 10000}, 'encryption': None},
            {'hashing': {'name': 'sha2', 'bits': 384}, 'chunking': {'min_length': 4, 'max_length': 4},
             'encryption': {'cipher': {'name': 'aes_gcm', 'key_bits': 128, 'nonce_bits': 128}, 'kdf': {'name': 'blake2b'}}},
            {'chunking': {'min_length': 16, 'max_length': 257}},     # everything else at its default, incl. scrypt n=2**20
        ]
        s = variants[case['which'] % len(variants)]
        src, truth = self._tree(scratch, s['chunking']['max_length'])
        spec = {'repo': os.path.join(scratch, 'repo'), 'key': os.path.join(scratch, 'key'), 'src': src, 'settings': s,
                'target': os.path.join(scratch, 'target'), 'concurrent': 2}

        def child(action):
            p = subprocess.run([paths.PYTHON, '-m', 'vflib.xproc', action, json.dumps(spec)], capture_output=True, text=True,
                               timeout=200, cwd=str(paths.VERIF))
            try:
                return json.loads(p.stdout.strip().splitlines()[-1])
            except Exception:
                return {'ok': False, 'error': p.stderr[-500:]}
        v = []
        for action in ('init', 'snapshot', 'restore'):
            out = child(action)
            if not out.get('ok'):
                v.append({'what': f'{action} in a fresh interpreter failed after an accepted init: {out.get("error")}', 'mechanism': None,
                          'witness': {'settings': s}})
                break
        else:
            got = {'/' + k: val[0] for k, val in gen.walk_tree(spec['target']).items()}
            if got != truth:
                v.append({'what': 'round trip across interpreters differs', 'mechanism': None, 'witness': {'settings': s}})
        return {'verdict': 'violated' if v else 'held', 'classes': [f'proc|{case["which"] % len(variants)}'],
                'counters': {'fresh_process_verifications': 1}, 'violations': v}


def _multi_size(mx):
    if not isinstance(mx, int) or isinstance(mx, bool) or mx < 1:
        return 2565
    return 40 * mx + 5 if mx <= 100_000 else int(2.5 * min(mx, 6_000_000)) + 5


def _mechanism(label, settings, why=''):
    """Known-finding key by mechanism: a content hash of 8 or 16 bits makes distinct chunks collide."""
    h = (settings or {}).get('hashing') if isinstance(settings, dict) else None
    if isinstance(h, dict) and h.get('name', 'blake2b') == 'blake2b' and isinstance(h.get('length'), int) \
            and not isinstance(h.get('length'), bool) and 1 <= h['length'] <= 2 and why.startswith('round trip differs'):
        return 'tiny-digest-collision'
    return None
