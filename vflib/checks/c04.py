"""C04 - damaged or substituted repository objects are never restored silently."""
import asyncio
import os
import random
import shutil
import tempfile
import threading
from pathlib import Path

from .. import gen, paths
from ..harness import CheckBase

FAMILIES = ('flip', 'truncate', 'extend', 'swap', 'cross-swap', 'replay', 'delete')


class Check(CheckBase):
    property_id = 'C04'
    evaluations_counter = 'corruptions'
    level = 'fault_enumeration'
    rule = ('repositories written by the real snapshot command (1-3 snapshots, 1-2 same-family users, all ciphers/hashes, '
            'encrypted and not); for sampled chunk objects and every snapshot object the corruption families {bit flip at '
            'first/last byte, inside the nonce, inside the tag, seeded offsets; truncate to 0,1,nonce-1,nonce,len-16,len-1; '
            'append 1 / 1024 bytes; swap two chunks; swap two snapshots; chunk<->snapshot; replay A over B; delete}, singly '
            'and in seeded pairs, each applied to a copy of the object map and followed by a real restore (no cache, fresh '
            'Repository) - untargeted and targeted at one snapshot. Oracle: the restore raised, or it returned and the target '
            'tree equals the restore model over the snapshots whose objects were not removed (original contents); and the '
            'paths it reports equal that tree. The program itself (`python -m replicat restore`, default interpreter and python -O) must exit non-zero or restore the right bytes. class = (corruption family, object kind, encrypted?, outcome)')
    assumptions = ['removal of a snapshot object makes that snapshot legitimately absent (same as delete); every other corruption '
                   'must be detected or be irrelevant to the bytes restored',
                   'cache disabled; cache states are the subject of C18']
    case_timeout = 300

    def generate(self):
        quick = self.tier == 'quick'
        n = 64 if quick else 1200
        cases = []
        for i in range(n):
            r = random.Random(f'C04/{self.seed}/{i}')
            cases.append({
                'seed': r.randrange(1 << 30),
                'settings': gen.gen_settings(r, encrypted=(i % 3 != 2),
                                             chunker=r.choice([(8, 64), (4, 64), (16, 257), (12, 12), (64, 1024)])),
                'flavour': 'async' if i % 4 == 1 else 'sync',
                'nsnaps': r.choice([1, 2, 2, 3]),
                'two_users': i % 5 == 0,
                'budget': 70 if quick else 160,
            })
        # the same question asked of the program itself: `python -m replicat restore` on a damaged local repository must
        # exit non-zero or restore the right bytes - also with assertions stripped (python -O)
        for i in range(12 if quick else 120):
            r = random.Random(f'C04/{self.seed}/cli/{i}')
            cases.append({'kind': 'cli', 'seed': r.randrange(1 << 30),
                          'settings': gen.gen_settings(r, encrypted=(i % 2 == 0), chunker=r.choice([(8, 64), (64, 1024)])),
                          'optimize': i % 3 == 2, 'timeout': 300})
        return cases

    def worker_setup(self):
        from .. import hist  # noqa: F401

    def floors(self, agg):
        unmet = []
        cl = agg['classes']
        for fam in FAMILIES:
            for kind in ('chunk', 'snapshot'):
                for enc in ('enc', 'plain'):
                    if not any(k.startswith(f'{fam}|{kind}|{enc}|') for k in cl):
                        unmet.append(f'class {fam}|{kind}|{enc} not exercised')
        c = agg['counters']
        for k in ('raised_chunk_corrupted', 'raised_snapshot_corrupted', 'raised_decryption'):
            if c.get(k, 0) == 0:
                unmet.append(f'verification branch never reached: {k}')
        if c.get('corruptions', 0) < (2000 if self.tier == 'quick' else 100000):
            unmet.append('too few corruptions applied')
        if c.get('retries_with_cache', 0) < 200:
            unmet.append('too few retried restores with the snapshot cache on')
        if c.get('cli_restores', 0) < 40:
            unmet.append('too few restores through the command line')
        return unmet[:6]

    # -------------------------------------------------------------------------------------------------
    def _cli(self, case):
        import subprocess
        from .. import rep
        from replicat.backends.local import Local
        r = random.Random(case['seed'])
        scratch = tempfile.mkdtemp(prefix='vf-c04c-', dir=paths.scratch_root())
        counters, classes, violations = {'cli_restores': 0}, set(), []
        try:
            repo, src, keyf = os.path.join(scratch, 'repo'), os.path.join(scratch, 'src'), os.path.join(scratch, 'key')
            os.makedirs(src)
            mx = case['settings']['chunking']['max_length']
            truth = {}
            for i in range(3):
                data = r.randbytes(r.choice([mx // 2, 3 * mx + 1, 9 * mx]))
                Path(src, f'f{i}').write_bytes(data)
                truth[os.path.realpath(os.path.join(src, f'f{i}'))] = data

            async def build():
                be = Local(repo)
                _, key, _ = await rep.init(be, case['settings'], concurrent=2)
                rp = await rep.unlocked(be, key, concurrent=2)
                with rep.capture():
                    await rp.snapshot(paths=[Path(src)])
                return key
            key = asyncio.run(build())
            enc = key is not None
            if enc:
                Path(keyf).write_bytes(key)
            chunks = sorted(os.path.join(dp, f) for dp, _, fs in os.walk(os.path.join(repo, 'data')) for f in fs)
            pristine = {c: open(c, 'rb').read() for c in chunks}

            def run_cli(target):
                argv = ['restore', target, '-r', repo, '--no-cache', '-q', '--ignore-config']
                if enc:
                    argv += ['-K', keyf, '-p', rep.PASSWORD.decode()]
                code = ("import sys; import vflib.rep, runpy; sys.argv = ['replicat'] + %r; "
                        "runpy.run_module('replicat', run_name='__main__')" % argv)
                env = dict(os.environ)
                if case['optimize']:
                    env['PYTHONOPTIMIZE'] = '1'
                return subprocess.run([paths.PYTHON, '-c', code], capture_output=True, text=True, timeout=120, env=env,
                                      cwd=str(paths.VERIF))
            plans = [('control', None)] + [(k, r.choice(chunks)) for k in ('flip', 'truncate', 'swap', 'delete', 'flip')]
            for n, (kind, victim) in enumerate(plans):
                for c, b in pristine.items():
                    with open(c, 'wb') as f:
                        f.write(b)
                if kind == 'flip':
                    b = bytearray(pristine[victim])
                    if not b:
                        continue
                    b[r.randrange(len(b))] ^= 1 << r.randrange(8)
                    open(victim, 'wb').write(bytes(b))
                elif kind == 'truncate':
                    open(victim, 'wb').write(pristine[victim][: r.choice([0, 1, max(len(pristine[victim]) - 1, 0)])])
                elif kind == 'swap':
                    other = r.choice([c for c in chunks if pristine[c] != pristine[victim]] or [victim])
                    open(victim, 'wb').write(pristine[other])
                    open(other, 'wb').write(pristine[victim])
                elif kind == 'delete':
                    os.unlink(victim)
                target = os.path.join(scratch, f'target{n}')
                p = run_cli(target)
                counters['cli_restores'] += 1
                got = {'/' + k: v[0] for k, v in gen.walk_tree(target).items()} if os.path.isdir(target) else {}
                outcome = 'exit0' if p.returncode == 0 else 'nonzero'
                classes.add(f'cli|{kind}|{"enc" if enc else "plain"}|{"-O" if case["optimize"] else "default"}|{outcome}')
                if kind == 'control':
                    if p.returncode != 0 or got != truth:
                        return {'verdict': 'inconclusive', 'note': f'control restore through the CLI failed: rc={p.returncode} {p.stderr[-400:]}',
                                'classes': [], 'counters': counters}
                elif p.returncode == 0 and got != truth:
                    bad = sorted(pth for pth in set(got) | set(truth) if got.get(pth) != truth.get(pth))[:3]
                    violations.append({'what': f'`replicat restore` exited 0 after [{kind}:chunk] but did not write the original content '
                                               f'({"python -O" if case["optimize"] else "default interpreter"})', 'mechanism': None,
                                       'witness': {'paths': bad, 'stderr': p.stderr[-300:], 'settings': case['settings']}})
                shutil.rmtree(target, ignore_errors=True)
        except subprocess.TimeoutExpired:
            return {'verdict': 'inconclusive', 'note': 'CLI child watchdog', 'classes': [], 'counters': counters}
        finally:
            shutil.rmtree(scratch, ignore_errors=True)
        return {'verdict': 'violated' if violations else 'held', 'classes': sorted(classes), 'counters': counters,
                'violations': violations[:3]}

    def run_case(self, case):
        if case.get('kind') == 'cli':
            return self._cli(case)
        from .. import hist, membackend, model, rep
        from replicat import exceptions
        r = random.Random(case['seed'])
        enc = case['settings'].get('encryption') is not None
        graph = ['owner', ('shared', 0)] if (enc and case['two_users']) else ['owner']
        world = hist.World(case['seed'], case['settings'], case['flavour'], 2, graph, latency=False)
        counters, classes, violations = {'corruptions': 0}, set(), []
        scratch = world.scratch

        async def build():
            await world.setup()
            mn, mx = case['settings']['chunking']['min_length'], case['settings']['chunking']['max_length']
            pool = hist.make_pool(r, mn, mx)
            for k in range(case['nsnaps']):
                u = r.choice(sorted(world.users))
                await world.snapshot(u, hist.gen_fileset(r, pool, nmax=5))

        async def restore_on(objects, user, regex, cache=None, intact_first=None):
            store = membackend.Store(case['seed'])
            store.objects = dict(objects if intact_first is None else intact_first)
            be = membackend.make_backend(store, case['flavour'])
            u = world.users[user]
            target = tempfile.mkdtemp(prefix='t-', dir=scratch)
            try:
                repo = await rep.unlocked(be, u.key, u.password, concurrent=2, cache=cache)
                if intact_first is not None:
                    # a long-lived Repository object: it has restored the intact repository once, THEN the objects change
                    warm = tempfile.mkdtemp(prefix='w-', dir=scratch)
                    try:
                        with rep.capture():
                            await repo.restore(snapshot_regex=regex, path=Path(warm))
                    finally:
                        shutil.rmtree(warm, ignore_errors=True)
                    with store.lock:
                        store.objects.clear()
                        store.objects.update(objects)
                with rep.capture():
                    res = await repo.restore(snapshot_regex=regex, path=Path(target))
                tree = {'/' + k: v[0] for k, v in gen.walk_tree(target).items()}
                return ('returned', tree, sorted(res.files or []))
            except Exception as e:
                return ('raised', e, None)
            finally:
                shutil.rmtree(target, ignore_errors=True)

        def corruptions(objects):
            """Yield (family, kind, description, mutate(objects copy) -> set of removed snapshot locations)."""
            chunks = sorted(n for n in objects if n.startswith('data/'))
            snaps = sorted(n for n in objects if n.startswith('snapshots/'))
            nonce = 12 if enc else 0
            by_loc_user = {s_.location: s_.user for s_ in world.snaps.values()}
            picks = r.sample(chunks, min(len(chunks), 5)) + snaps
            out = []
            for name in picks:
                kind = 'chunk' if name.startswith('data/') else 'snapshot'
                blob = objects[name]
                L = len(blob)
                offs = {0, L - 1, min(5, L - 1), max(L - 8, 0)} | {r.randrange(L) for _ in range(4)} if L else set()
                for o in sorted(offs):
                    bit = 1 << r.randrange(8)
                    out.append(('flip', kind, f'{name} bit {bit:#x} at {o}/{L}',
                                lambda m, name=name, o=o, bit=bit: m.__setitem__(name, _flip(m[name], o, bit))))
                for t in sorted({0, 1, max(nonce - 1, 0), nonce, max(L - 16, 0), max(L - 1, 0)}):
                    if t < L:
                        out.append(('truncate', kind, f'{name} to {t}/{L}',
                                    lambda m, name=name, t=t: m.__setitem__(name, m[name][:t])))
                for extra in (b'\x00', r.randbytes(1024)):
                    out.append(('extend', kind, f'{name} +{len(extra)}',
                                lambda m, name=name, extra=extra: m.__setitem__(name, m[name] + extra)))
                same = [x for x in (chunks if kind == 'chunk' else snaps) if x != name and objects[x] != blob]
                other_kind = [x for x in (snaps if kind == 'chunk' else chunks)]
                if same:
                    o2 = r.choice(same)
                    out.append(('swap', kind, f'{name} <-> {o2}', lambda m, a=name, b=o2: _swap(m, a, b)))
                    out.append(('replay', kind, f'{o2} copied over {name}',
                                lambda m, a=name, b=o2: m.__setitem__(a, m[b])))
                if other_kind:
                    o3 = r.choice(other_kind)
                    out.append(('cross-swap', kind, f'{name} <-> {o3}', lambda m, a=name, b=o3: _swap(m, a, b)))
                out.append(('delete', kind, f'{name} removed', lambda m, name=name: m.pop(name)))
                if kind == 'snapshot' and len(world.users) > 1:
                    # a valid snapshot object of ANOTHER user of the same repository in the place of this one
                    owner = by_loc_user.get(name)
                    foreign = [x for x in snaps if by_loc_user.get(x) not in (None, owner)]
                    if foreign:
                        o4 = r.choice(foreign)
                        out.append(('replay-foreign', kind, f'{o4} (by {by_loc_user[o4]}) copied over {name} (by {owner})',
                                    lambda m, a=name, b=o4: m.__setitem__(a, m[b])))
            return out

        async def go():
            await build()
            base = world.store.snapshot_objects()
            users = sorted({s.user for s in world.snaps.values()})
            all_c = corruptions(base)
            r.shuffle(all_c)
            # every family x kind first, then the rest up to the budget
            seen, ordered, rest = set(), [], []
            for c in all_c:
                (ordered if (c[0], c[1]) not in seen else rest).append(c)
                seen.add((c[0], c[1]))
            plan = [(c,) for c in (ordered + rest)[:case['budget']]]
            for _ in range(case['budget'] // 4):
                plan.append(tuple(r.sample(all_c, 2)))
            by_loc = {s.location: s for s in world.snaps.values()}
            for combo in plan:
                objs = dict(base)
                try:
                    for fam, kind, desc, mut in combo:
                        mut(objs)
                except (KeyError, IndexError):
                    continue        # second corruption of a pair refers to an object the first one removed
                removed = {loc for loc in by_loc if loc not in objs}
                counters['corruptions'] += 1
                user = r.choice(users)
                target_snap = r.choice(sorted(world.snaps)) if r.random() < 0.35 else None
                regex = f'^{target_snap}$' if target_snap else None
                # one in four corruptions is met with the snapshot cache on (the CLI default) and the user
                # retrying after a failure: every attempt is judged by the same oracle
                cache = tempfile.mkdtemp(prefix='cache-', dir=scratch) if counters['corruptions'] % 4 == 0 else None
                attempts = 1
                reuse = cache is None and counters['corruptions'] % 4 == 1
                if reuse:
                    counters['restores_by_an_object_that_saw_the_intact_repository'] = counters.get('restores_by_an_object_that_saw_the_intact_repository', 0) + 1
                outcome, val, listed = await restore_on(objs, user, regex, cache, intact_first=base if reuse else None)
                while cache is not None and outcome == 'raised' and attempts < 3:
                    attempts += 1
                    counters['retries_with_cache'] = counters.get('retries_with_cache', 0) + 1
                    outcome, val, listed = await restore_on(objs, user, regex, cache)
                if cache is not None:
                    shutil.rmtree(cache, ignore_errors=True)
                readable = [s for s in world.snaps.values() if s.user == user and s.location not in removed]
                expect = {p: d for p, (d, _) in model.restore_model(readable, regex).items()}
                enc_s = 'enc' if enc else 'plain'
                label = '+'.join(f'{c[0]}:{c[1]}' for c in combo)
                if outcome == 'raised':
                    e = val
                    msg = str(e)
                    if isinstance(e, exceptions.DecryptionError):
                        counters['raised_decryption'] = counters.get('raised_decryption', 0) + 1
                    elif isinstance(e, exceptions.ReplicatError) and 'Chunk' in msg and 'corrupted' in msg:
                        counters['raised_chunk_corrupted'] = counters.get('raised_chunk_corrupted', 0) + 1
                    elif isinstance(e, exceptions.ReplicatError) and 'Snapshot' in msg and 'corrupted' in msg:
                        counters['raised_snapshot_corrupted'] = counters.get('raised_snapshot_corrupted', 0) + 1
                    else:
                        k = 'raised_' + type(e).__name__
                        counters[k] = counters.get(k, 0) + 1
                    oc = 'raised'
                else:
                    tree = val
                    oc = 'returned-identical'
                    counters['returned'] = counters.get('returned', 0) + 1
                    if tree != expect or sorted(expect) != listed:
                        oc = 'returned-different'
                        bad = sorted(p for p in set(tree) | set(expect) if tree.get(p) != expect.get(p))[:4]
                        violations.append({
                            'what': f'restore (attempt {attempts}, cache {"on" if cache else "off"}{", by an object that had restored the intact repository before" if reuse else ""}) reported success after [{label}] but wrote content that differs from what the '
                                    f'intact repository holds ({len(bad)} path(s) differ)',
                            'mechanism': None,
                            'witness': {'corruptions': [c[2] for c in combo], 'paths': bad, 'user': user, 'regex': regex,
                                        'listed': listed[:5], 'settings': case['settings'],
                                        'sizes': {p: (len(tree.get(p, b'')) if p in tree else None,
                                                      len(expect.get(p, b'')) if p in expect else None) for p in bad}}})
                for fam, kind, _, _ in combo:
                    classes.add(f'{fam}|{kind}|{enc_s}|{oc}')
                if len(combo) > 1:
                    classes.add(f'pair|{enc_s}|{oc}')
                if len(violations) > 4:
                    break
        try:
            asyncio.run(go())
        except Exception as e:
            import traceback
            return {'verdict': 'inconclusive', 'note': 'harness exception: ' + traceback.format_exc()[-2500:],
                    'classes': [], 'counters': counters}
        finally:
            world.close()
        res = {'verdict': 'violated' if violations else 'held', 'classes': sorted(classes), 'counters': counters,
               'violations': violations[:4]}
        if threading.active_count() > 150:
            res['_recycle'] = True
        return res


def _flip(blob, off, bit):
    b = bytearray(blob)
    b[off] ^= bit
    return bytes(b)


def _swap(m, a, b):
    m[a], m[b] = m[b], m[a]
