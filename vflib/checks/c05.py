"""C05 - an encrypted repository reveals no plaintext at rest."""
import asyncio
import base64
import os
import random
import tempfile
import zlib

from .. import gen
from ..harness import CheckBase


def encodings(secret):
    """Search patterns for one secret byte string: raw, hex (both cases), base64 at the three alignments."""
    out = {('raw', secret), ('hex', secret.hex().encode()), ('HEX', secret.hex().upper().encode())}
    for shift in range(3):
        enc = base64.standard_b64encode(b'\x00' * shift + secret + b'\x00\x00')
        start = 0 if shift == 0 else 4
        core = enc[start:len(enc) - 8]
        if len(core) >= 12:
            out.add((f'b64+{shift}', core))
            out.add((f'b64url+{shift}', core.replace(b'+', b'-').replace(b'/', b'_')))
    return out


class Check(CheckBase):
    property_id = 'C05'
    level = 'exploration'
    rule = ('encrypted repositories over all ciphers/key sizes/hashes; key graphs with shared, clone and independent keys '
            '(keys written to files and printed to stdout); histories of init, add-key, snapshot, repeat snapshot, delete, '
            'clean, and delete-then-resnapshot on long-lived and per-command Repository objects; file contents, path '
            'components and notes carry planted 24-byte canaries. Oracles: (1) canary scan - every planted canary, every '
            'mtime, every file/chunk digest and every key secret (shared key, MAC key, chunker key, shared KDF salt, user '
            'keys, passwords) is searched raw, hex and in all three base64 alignments in every object NAME and BODY that '
            'ever crossed the backend boundary (not only the final store), in every serialized key and in all stdout/stderr; '
            '(2) structure - an independent reader re-serialises every object to the same bytes, authenticates every blob '
            'under the documented key and recomputes every name as MAC(k,digest)/MAC(k,MAC(k,digest)); (3) nonce monitor at '
            'the cryptography library\'s AEAD encrypt calls across all Repository objects of the history, cross-checked with the nonces read '
            'back from stored blobs grouped by key; (4) objects holding all-zero plaintext must not deflate. '
            'class = (cipher, hash, key-graph class, repo-object lifetime)')
    assumptions = ['no claim about side channels (sizes, timing)', '-v/-vv logging prints secrets by design and is not "written to the '
                   'backend or a key file"; default verbosity only', 'the algorithm settings in config are public (property text)']
    case_timeout = 300

    def generate(self):
        quick = self.tier == 'quick'
        n = 64 if quick else 3600
        cases = []
        for i in range(n):
            r = random.Random(f'C05/{self.seed}/{i}')
            s = gen.gen_settings(r, encrypted=True, chunker=r.choice([(8, 64), (16, 257), (64, 1024), (12, 12)]))
            s['encryption']['cipher'] = dict(gen.CIPHERS[i % len(gen.CIPHERS)])
            s['hashing'] = dict(gen.HASHERS[(i // len(gen.CIPHERS)) % len(gen.HASHERS)])
            cases.append({'seed': r.randrange(1 << 30), 'settings': s, 'flavour': 'async' if i % 2 else 'sync',
                          'reuse_repos': i % 3 != 0, 'nops': r.randint(6, 10) if quick else r.randint(6, 24)})
        # payloads beyond 1 GiB through the cipher adapters (chunk lengths and snapshot bodies of that size are accepted);
        # about 3 GB of memory and 5 s per case
        for i, name in enumerate(['aes_gcm', 'chacha20_poly1305']):
            if True:
                cases.insert(i, {'kind': 'large-payload', 'cipher': name, 'size': 2**30 + 5000 + i, 'seed': i, 'timeout': 900})
        return cases

    def worker_setup(self):
        from .. import hist  # noqa: F401

    def floors(self, agg):
        c = agg['counters']
        unmet = []
        if c.get('encrypt_calls', 0) < 2000:
            unmet.append(f'encrypt calls observed {c.get("encrypt_calls", 0)} < 2000')
        for ciph in ('aes_gcm128', 'aes_gcm192', 'aes_gcm256', 'chacha20_poly1305'):
            if not any(k.startswith(ciph + '|') for k in agg['classes']):
                unmet.append(f'cipher {ciph} not exercised')
        if c.get('bytes_scanned', 0) < 1_000_000:
            unmet.append('fewer than 1 MB scanned')
        if c.get('blobs_authenticated', 0) < 2000:
            unmet.append('too few blobs authenticated by the independent reader')
        if c.get('keys_printed_to_stdout', 0) < 20:
            unmet.append('too few keys emitted on stdout')
        return unmet

    def _large_payload(self, case):
        from .. import rep  # noqa: F401
        from replicat.utils import adapters
        from cryptography.hazmat.primitives.ciphers import aead as _aead
        real = getattr(_aead, {'aes_gcm': 'AESGCM', 'chacha20_poly1305': 'ChaCha20Poly1305'}[case['cipher']])
        uses = {}

        class Recording:
            def __init__(self, key, *a, **kw):
                self._k, self._r = bytes(key), real(key, *a, **kw)

            def encrypt(self, nonce, data, aad=None):
                uses[(self._k, bytes(nonce))] = uses.get((self._k, bytes(nonce)), 0) + 1
                return self._r.encrypt(nonce, data, aad)

            def decrypt(self, nonce, data, aad=None):
                return self._r.decrypt(nonce, data, aad)
        setattr(_aead, real.__name__, Recording)
        v = []
        try:
            adapter = getattr(adapters, case['cipher'])()
            key = bytes(range(adapter.key_bytes))
            data = bytes(case['size'])
            blob = adapter.encrypt(data, key)
            back = adapter.decrypt(blob, key)
            if bytes(back) != data:
                v.append({'what': f'a payload of {case["size"]} bytes does not survive encrypt + decrypt', 'mechanism': None, 'witness': {}})
            worst = max(uses.values(), default=0)
            if worst > 1:
                v.append({'what': f'encrypting one payload of {case["size"]} bytes used the same (key, nonce) pair for {worst} AEAD '
                                  f'encryptions', 'mechanism': None, 'witness': {'cipher': case['cipher'], 'aead_calls': sum(uses.values())}})
        finally:
            setattr(_aead, real.__name__, real)
        return {'verdict': 'violated' if v else 'held', 'classes': [f'large-payload|{case["cipher"]}'],
                'counters': {'large_payloads': 1, 'encrypt_calls': sum(uses.values())}, 'violations': v}

    def run_case(self, case):
        if case.get('kind') == 'large-payload':
            return self._large_payload(case)
        from .. import hist, refimpl, rep
        from replicat.utils import adapters
        r = random.Random(case['seed'])
        graph = hist.gen_graph(r, True)
        world = hist.World(case['seed'], case['settings'], case['flavour'], 3, graph, reuse_repos=case['reuse_repos'])
        world.store.payload_log = []
        counters, violations = {}, []
        canaries = {}            # label -> bytes

        def viol(what, **w):
            violations.append({'what': what, 'mechanism': None, 'witness': dict(w, settings=case['settings'], graph=graph)})

        # -- nonce monitor (I7) --------------------------------------------------------------------------------
        # at the boundary of the cryptography library (whatever replicat's adapters look like inside): every AEAD
        # object the history creates is a recording stand-in for the real one
        seen_nonces, enc_calls = {}, [0]
        from cryptography.hazmat.primitives.ciphers import aead as _aead
        real_aead = {n: getattr(_aead, n) for n in ('AESGCM', 'ChaCha20Poly1305', 'AESCCM', 'AESOCB3', 'AESSIV', 'AESGCMSIV')
                     if hasattr(_aead, n)}

        def recording(real):
            class Recording:
                def __init__(self, key, *a, **kw):
                    self._vf_key, self._vf_real = bytes(key), real(key, *a, **kw)

                def encrypt(self, nonce, data, associated_data=None):
                    out = self._vf_real.encrypt(nonce, data, associated_data)
                    enc_calls[0] += 1
                    k = (self._vf_key, bytes(nonce))
                    if k in seen_nonces:
                        viol('two encryptions under one key used the same nonce', nonce=k[1].hex(),
                             first_len=seen_nonces[k], second_len=len(data))
                    seen_nonces[k] = len(data)
                    return out

                def decrypt(self, nonce, data, associated_data=None):
                    return self._vf_real.decrypt(nonce, data, associated_data)

                generate_key = staticmethod(getattr(real, 'generate_key', None))
            Recording.__name__ = Recording.__qualname__ = real.__name__
            return Recording
        stand_ins = {n: recording(c) for n, c in real_aead.items()}
        patched_modules = []

        def install_aead():
            import sys as _sys
            for n, c in stand_ins.items():
                setattr(_aead, n, c)
            # names bound by `from ... import AESGCM` inside replicat
            for mname, mod in list(_sys.modules.items()):
                if mod is not None and (mname == 'replicat' or mname.startswith('replicat.')):
                    for attr, val in list(vars(mod).items()):
                        for n, c in real_aead.items():
                            if val is c:
                                setattr(mod, attr, stand_ins[n])
                                patched_modules.append((mod, attr, c))

        def restore_aead():
            for n, c in real_aead.items():
                setattr(_aead, n, c)
            for mod, attr, c in patched_modules:
                setattr(mod, attr, c)
        install_aead()
        rep.RECORD = []
        key_texts = []

        def content(size):
            """Random filler with canaries planted at aligned and unaligned offsets."""
            buf = bytearray(r.randbytes(size))
            for _ in range(1 + size // 600):
                c = r.randbytes(24)
                canaries[f'content-{len(canaries)}'] = c
                if size >= 24:
                    off = r.randrange(0, size - 23)
                    buf[off:off + 24] = c
            return bytes(buf)

        async def go():
            await world.setup()
            # keys to stdout / to files through add-key on a session (the README's default is stdout)
            for u in sorted(world.users):
                key_texts.append(('key-of-' + u, world.users[u].key))
            owner = world.users['u0']
            for shared in (True, False):
                repo = await rep.unlocked(world.backend('u0'), owner.key, owner.password)
                with rep.capture() as cap:
                    res = await repo.add_key(password=b'pw-stdout-' + bytes([65 + shared]), shared=shared,
                                             settings=world._kdf_settings())
                counters['keys_printed_to_stdout'] = counters.get('keys_printed_to_stdout', 0) + 1
                key_texts.append(('stdout-key', cap.stdout.encode()))
                kf = os.path.join(world.scratch, f'keyfile-{shared}')
                repo2 = await rep.unlocked(world.backend('u0'), owner.key, owner.password)
                with rep.capture():
                    await repo2.add_key(password=b'pw-file-' + bytes([65 + shared]), shared=shared, key_output_path=kf,
                                        settings=world._kdf_settings())
                key_texts.append(('key-file', open(kf, 'rb').read()))
            mx = case['settings']['chunking']['max_length']
            users = sorted(world.users)
            zeros = bytes(12 * max(mx, 64))
            last = {}
            for step in range(case['nops']):
                op = r.choice(['snap', 'snap', 'snap', 'repeat', 'del', 'clean', 'churn', 'empty-only', 'faulty-snapshot-upload'])
                u = r.choice(users)
                if op == 'empty-only':
                    # a tree of empty files only: no chunk at all, everything is in the snapshot object
                    names = [f'CNRY{r.randrange(1 << 40):010x}-e{i}' for i in range(r.randint(1, 3))]
                    note = f'NOTE{r.randrange(1 << 60):016x}'
                    for nm in names:
                        canaries['name-' + nm] = nm.encode()
                    canaries['note-' + note] = note.encode()
                    await world.snapshot(u, {f'dir{names[0]}/{nm}': b'' for nm in names}, note=note)
                    counters['empty_only_snapshots'] = counters.get('empty_only_snapshots', 0) + 1
                    continue
                if op == 'faulty-snapshot-upload':
                    # the upload of the snapshot object fails once (a transient fault): whatever the command does next,
                    # nothing it sends may be readable
                    names = [f'CNRY{r.randrange(1 << 40):010x}-f{i}' for i in range(2)]
                    note = f'NOTE{r.randrange(1 << 60):016x}'
                    for nm in names:
                        canaries['name-' + nm] = nm.encode()
                    canaries['note-' + note] = note.encode()
                    fs = {f'dir{names[0]}/{nm}': content(r.choice([40, 3 * mx + 7])) for nm in names}
                    world.store.faults = [{'op': 'upload', 'prefix': 'snapshots/', 'nth': 0, 'count': 1}]
                    try:
                        await world.snapshot(u, fs, note=note, fresh=True)
                    except Exception:
                        pass
                    finally:
                        world.store.faults = []
                    await world.drain()
                    counters['faulty_snapshot_uploads'] = counters.get('faulty_snapshot_uploads', 0) + 1
                    continue
                if op in ('snap', 'churn') or not world.snaps:
                    names = [f'CNRY{r.randrange(1 << 40):010x}-{i}' for i in range(r.randint(1, 4))]
                    for nm in names:
                        canaries['name-' + nm] = nm.encode()
                    fs = {f'dir{names[0]}/{nm}': content(r.choice([5, 40, 3 * mx + 7, 9 * mx])) for nm in names}
                    fs['zeros'] = zeros
                    note = f'NOTE{r.randrange(1 << 60):016x}'
                    canaries['note-' + note] = note.encode()
                    rec = await world.snapshot(u, fs, note=note)
                    last[u] = fs
                    if op == 'churn':
                        await world.delete(u, [rec.name], fresh=r.random() < 0.5)
                        await world.snapshot(u, fs, note=note)
                elif op == 'repeat' and last:
                    u0 = r.choice(sorted(last))
                    fam = world.users[u0].family
                    u = r.choice([x for x in users if world.users[x].family == fam])
                    await world.snapshot(u, last[u0])
                elif op == 'del':
                    own = [n for n, s in world.snaps.items() if s.user == u]
                    if own:
                        await world.delete(u, r.sample(own, 1))
                elif op == 'clean':
                    await world.clean(u)
        try:
            asyncio.run(go())
        except Exception as e:
            import traceback
            restore_aead()
            rep.RECORD = None
            world.close()
            return {'verdict': 'inconclusive', 'note': 'history failed: ' + traceback.format_exc()[-2000:], 'classes': [],
                    'counters': {}}
        restore_aead()
        captured, rep.RECORD = rep.RECORD, None
        counters['encrypt_calls'] = enc_calls[0]

        # -- secrets -----------------------------------------------------------------------------------------------
        secrets = dict(canaries)
        for uname, u in world.users.items():
            ref = u.ref
            secrets[f'userkey-{uname}'] = ref.userkey
            secrets[f'password-{uname}'] = u.password
            for k in ('shared_key', 'mac_params', 'chunker_params', 'shared_kdf_params'):
                secrets[f'{k}-{u.family}'] = ref.private[k]
        all_recs = list(world.snaps.values()) + list(world.deleted.values())
        for rec in all_recs:
            ref = world.users[rec.user].ref
            for d in rec.digests[:40]:
                secrets[f'chunk-digest-{d.hex()[:8]}'] = bytes(d)
            for path, data in list(rec.files.items())[:6]:
                if data:
                    secrets[f'file-digest-{len(secrets)}'] = ref.hash(data)
        # mtimes as decimal text
        for rec in all_recs[:6]:
            for path in list(rec.files)[:3]:
                try:
                    secrets[f'mtime-{len(secrets)}'] = str(os.stat(path).st_mtime_ns).encode()
                except OSError:
                    pass
        patterns = []
        for label, sec in secrets.items():
            if not sec or len(sec) < 8:
                continue
            if label.startswith(('name-', 'note-', 'mtime-', 'password-')):
                patterns.append((label, 'raw', sec))
                patterns.append((label, 'b64', base64.standard_b64encode(sec)[:-4]))
                patterns.append((label, 'hex', sec.hex().encode()))
            else:
                for kind, pat in encodings(sec):
                    patterns.append((label, kind, pat))
        counters['patterns'] = len(patterns)

        # -- (1) canary scan -----------------------------------------------------------------------------------------
        haystacks = []
        for name, data in world.store.payload_log:
            if name == 'config':
                continue
            haystacks.append(('object-name', name, name.encode()))
            haystacks.append(('object-body', name, data))
        for name in world.store.objects:
            haystacks.append(('object-name', name, name.encode()))
        for label, text in key_texts:
            haystacks.append((label, label, text if isinstance(text, bytes) else bytes(text)))
        for cap in captured:
            haystacks.append(('stdout', 'stdout', cap.stdout.encode('utf-8', 'surrogateescape')))
            haystacks.append(('stderr', 'stderr', cap.stderr.encode('utf-8', 'surrogateescape')))
        scanned = 0
        for where, name, hay in haystacks:
            scanned += len(hay)
            for label, kind, pat in patterns:
                if pat in hay:
                    # the user's own password-derived material is allowed nowhere; public salts are not secrets
                    viol(f'{label.split("-")[0]} visible in {where} ({kind} encoding)', object=name[:80], secret=label,
                         offset=hay.find(pat), size=len(hay))
                    break
            if len(violations) > 5:
                break
        counters['bytes_scanned'] = scanned
        counters['objects_scanned'] = len(haystacks)

        # -- (2) structure ----------------------------------------------------------------------------------------------
        locmap = {}
        for rec in all_recs:
            ref = world.users[rec.user].ref
            for d in rec.digests:
                locmap[ref.chunk_loc(d)] = (bytes(d), ref)
        by_key_nonce = {}

        def note_nonce(key, blob, ref, what):
            n = ref.cipher.nonce_of(blob)
            k = (key, n)
            if k in by_key_nonce and by_key_nonce[k] != blob:
                viol('two stored ciphertexts under one key share a nonce', blob_kind=what, nonce=n.hex())
            by_key_nonce[k] = blob

        auth = 0
        for name, data in world.store.payload_log:
            try:
                if name.startswith('data/'):
                    if name not in locmap:
                        continue
                    digest, ref = locmap[name]
                    plain = ref.decode_chunk(data, digest)
                    auth += 1
                    note_nonce(ref.shared_subkey(digest), data, ref, 'chunk')
                    if digest.hex() in name or ref.hash(plain).hex() in name:
                        viol('a chunk is stored under its plain content hash', name=name)
                    if plain == bytes(len(plain)) and len(data) > 300 and len(zlib.compress(data, 9)) < 0.9 * len(data):
                        viol('an object holding all-zero plaintext deflates: not encrypted?', name=name,
                             size=len(data), deflated=len(zlib.compress(data, 9)))
                elif name.startswith('snapshots/'):
                    fam = world.family_of_location(name)
                    ref = world.family_ref(fam)
                    dec = ref.decode_snapshot(name, data)
                    if refimpl.dumps(dec['raw']) != data:
                        viol('snapshot object carries bytes outside the documented envelope', name=name)
                    auth += 1
                    note_nonce(ref.shared_subkey(ref.hash(dec['raw']['data'])), dec['raw']['chunks'], ref, 'chunk table')
                    rec = next((s for s in all_recs if s.location == name), None)
                    if rec is not None:
                        oref = world.users[rec.user].ref
                        oref.cipher.decrypt(dec['raw']['data'], oref.userkey)
                        auth += 1
                        note_nonce(oref.userkey, dec['raw']['data'], oref, 'snapshot data')
                    want = ref.snapshot_name_tag(ref.hash(data))
                    if refimpl.snapshot_location(*want) != name:
                        viol('snapshot name is not (hash, MAC(hash)) of the stored bytes', name=name)
            except refimpl.FormatError as e:
                viol(f'object does not decode/authenticate under the documented scheme: {e}', name=name)
        for label, text in key_texts:
            if label.startswith(('key-of-', 'key-file')):
                k = refimpl.loads(text)
                if set(k) != {'kdf', 'kdf_params', 'private'} or not isinstance(k['private'], bytes):
                    viol('key file is not {kdf, kdf_params, private: ciphertext}', label=label, keys=sorted(k))
        for uname, u in world.users.items():
            note_nonce(u.ref.userkey, u.ref.key['private'], u.ref, 'key private section')
            auth += 1
        counters['blobs_authenticated'] = auth
        world.close()
        ciph = case['settings']['encryption']['cipher']
        h = case['settings']['hashing']
        cls = [f"{ciph['name']}{ciph.get('key_bits', '')}|{h['name']}{h.get('length', h.get('bits', ''))}|"
               f"{hist.graph_class(graph)}|{'long-lived' if case['reuse_repos'] else 'per-command'}"]
        return {'verdict': 'violated' if violations else 'held', 'classes': cls, 'counters': counters,
                'violations': violations[:4]}
