"""C19 - option precedence: CLI over environment over profile over defaults section over built-in default."""
import itertools
import json
import os
import random
import shutil
import subprocess
import tempfile

from .. import paths
from ..harness import CheckBase

SPY = '''
from replicat.backends.base import Backend


class Spy(Backend, short_name='vfspy'):
    def __init__(self, connection_string, *, token: str, region: str = 'built-in-region', retries: int = 3,
                 verify: bool = True, label=None, account: str = None, port: int = 8080):
        pass

    async def exists(self, name): return False
    async def upload(self, name, data): pass
    async def upload_stream(self, name, stream, length, chunk_size=1): pass
    async def download(self, name): return b''
    async def download_stream(self, name, stream, chunk_size=1): pass
    async def list_files(self, prefix=''): return []
    async def delete(self, name): pass


Client = Spy
'''
SPY2 = '''
from .vfspy import Spy


class DerivedSpy(Spy):
    """A backend built on another one, without restating short_name: its options use the DERIVEDSPY_ prefix."""


Client = DerivedSpy
'''

COMMANDS = {
    'list-snapshots': ['list-snapshots'], 'ls': ['ls'], 'list-files': ['list-files'], 'lf': ['lf'],
    'snapshot': ['snapshot', 'some/path'], 'restore': ['restore', 'out'], 'delete': ['delete', 'abc', '-y'], 'clean': ['clean'],
    'init': ['init'], 'add-key': ['add-key'], 'benchmark': ['benchmark', 'gclmulchunker'],
    'upload-objects': ['upload-objects', 'p'], 'download-objects': ['download-objects'], 'list-objects': ['list-objects'],
    'delete-objects': ['delete-objects', 'x', '-y'],
}
SOURCES = ('cli', 'env', 'profile', 'default')


def toml_value(v):
    if isinstance(v, bool):
        return 'true' if v else 'false'
    if isinstance(v, int):
        return str(v)
    return json.dumps(v)


class Opt:
    """One option: how each source spells a value and what the handler / constructor must receive."""

    def __init__(self, name, where, sources, values, builtin, observe, cli=None, env=None, key=None, backend='vfspy'):
        self.name, self.where, self.sources, self.values = name, where, sources, values
        self.builtin, self.observe, self.cli, self.env, self.key = builtin, observe, cli, env, key or name
        self.backend = backend


def options(scratch):
    """values[source] = (spelling in that source, expected observed value)."""
    pw_file = os.path.join(scratch, 'pwfile')
    key_file = os.path.join(scratch, 'keyfile')
    with open(pw_file, 'wb') as f:
        f.write(b'pw-from-file \r\n')        # as an editor leaves it: the bytes are the password, whichever way the file is named
    with open(key_file, 'wb') as f:
        f.write(b'{"key": "from-file"}\n')
    P = lambda s: {'path': s}          # noqa: E731
    B = lambda s: {'bytes': s}         # noqa: E731
    opts = [
        Opt('concurrent', 'args', ('cli', 'profile', 'default'),
            {'cli': ('11', 11), 'profile': (12, 12), 'default': ('13', 13)}, 5, 'concurrent', cli=lambda v: ['-c', v]),
        Opt('hide-progress', 'args', ('cli', 'profile', 'default'),
            {'cli': (None, True), 'profile': (True, True), 'default': ('true', True)}, False, 'quiet', cli=lambda v: ['-q']),
        Opt('hide-progress(false)', 'args', ('profile', 'default'),
            {'profile': (False, False), 'default': ('false', False)}, False, 'quiet', key='hide-progress'),
        Opt('cache-directory', 'args', ('cli', 'profile', 'default'),
            {'cli': ('/c/cli', P('/c/cli')), 'profile': ('/c/profile', P('/c/profile')), 'default': ('/c/default', P('/c/default'))},
            'BUILTIN-CACHE', 'cache_directory', cli=lambda v: ['--cache-directory', v]),
        Opt('no-cache', 'args', ('cli', 'profile', 'default'),
            {'cli': (None, None), 'profile': (True, None), 'default': ('true', None)}, 'BUILTIN-CACHE', 'cache_directory',
            cli=lambda v: ['--no-cache']),
        Opt('password', 'args', ('cli', 'env', 'profile', 'default'),
            {'cli': ('pw-cli', B('pw-cli')), 'env': ('pw-env', B('pw-env')), 'profile': ('pw-profile', B('pw-profile')),
             'default': ('pw-default', B('pw-default'))}, None, 'password', cli=lambda v: ['-p', v], env='REPLICAT_PASSWORD'),
        Opt('password-file', 'args', ('cli', 'env', 'profile', 'default'),
            {'cli': (pw_file, B('pw-from-file \r\n')), 'env': ('pw-env', B('pw-env')), 'profile': (pw_file, B('pw-from-file \r\n')),
             'default': (pw_file, B('pw-from-file \r\n'))}, None, 'password', cli=lambda v: ['-P', v], env='REPLICAT_PASSWORD'),
        Opt('key-file', 'args', ('cli', 'profile', 'default'),
            {'cli': (key_file, B('{"key": "from-file"}\n')), 'profile': (key_file, B('{"key": "from-file"}\n')),
             'default': (key_file, B('{"key": "from-file"}\n'))}, None, 'key', cli=lambda v: ['-K', v]),
        Opt('key', 'args', ('profile', 'default'),
            {'profile': ('{"k": 1}', B('{"k": 1}')), 'default': ('{"k": 2}', B('{"k": 2}'))}, None, 'key'),
        # backend-specific options of a custom backend discovered through the namespace package
        Opt('token', 'ctor', ('cli', 'env', 'profile', 'default'),
            {'cli': ('t-cli', 't-cli'), 'env': ('t-env', 't-env'), 'profile': ('t-profile', 't-profile'), 'default': ('t-default', 't-default')},
            'MISSING', 'token', cli=lambda v: ['--token', v], env='VFSPY_TOKEN'),
        Opt('region', 'ctor', ('cli', 'env', 'profile', 'default'),
            {'cli': ('r-cli', 'r-cli'), 'env': ('r-env', 'r-env'), 'profile': ('r-profile', 'r-profile'), 'default': ('r-default', 'r-default')},
            'built-in-region', 'region', cli=lambda v: ['--region', v], env='VFSPY_REGION'),
        Opt('retries', 'ctor', ('cli', 'env', 'profile', 'default'),
            {'cli': ('11', 11), 'env': ('12', 12), 'profile': (13, 13), 'default': ('14', 14)}, 3, 'retries',
            cli=lambda v: ['--retries', v], env='VFSPY_RETRIES'),
        Opt('verify', 'ctor', ('cli', 'env', 'profile', 'default'),
            {'cli': ('false', False), 'env': ('False', False), 'profile': (False, False), 'default': ('false', False)}, True, 'verify',
            cli=lambda v: ['--verify', v], env='VFSPY_VERIFY'),
        Opt('label', 'ctor', ('cli', 'env', 'profile', 'default'),
            {'cli': ('none', None), 'env': ('l-env', 'l-env'), 'profile': ('l-profile', 'l-profile'), 'default': ('none', None)}, None,
            'label', cli=lambda v: ['--label', v], env='VFSPY_LABEL'),
        # annotated parameters whose spelling looks like another type: every source must coerce alike
        Opt('account', 'ctor', ('cli', 'env', 'profile', 'default'),
            {'cli': ('12345', 12345), 'env': ('23456', 23456), 'profile': (34567, 34567), 'default': ('45678', 45678)}, None, 'account',
            cli=lambda v: ['--account', v], env='VFSPY_ACCOUNT'),
        Opt('port', 'ctor', ('cli', 'env', 'profile', 'default'),
            {'cli': ('none', None), 'env': ('None', None), 'profile': ('none', None), 'default': (9000, 9000)}, 8080, 'port',
            cli=lambda v: ['--port', v], env='VFSPY_PORT'),
        # the same through a backend derived from another one, and through built-in backends
        Opt('derived.token', 'ctor', ('cli', 'env', 'profile', 'default'),
            {'cli': ('t-cli', 't-cli'), 'env': ('t-env', 't-env'), 'profile': ('t-profile', 't-profile'), 'default': ('t-default', 't-default')},
            'MISSING', 'token', cli=lambda v: ['--token', v], env='DERIVEDSPY_TOKEN', key='token', backend='vfspy2'),
        Opt('s3.region', 'ctor', ('cli', 'env', 'profile', 'default'),
            {'cli': ('r-cli', 'r-cli'), 'env': ('r-env', 'r-env'), 'profile': ('r-profile', 'r-profile'), 'default': ('r-default', 'r-default')},
            'MISSING', 'region', cli=lambda v: ['--region', v], env='S3_REGION', key='region', backend='s3'),
        Opt('s3c.scheme', 'ctor', ('cli', 'env', 'profile', 'default'),
            {'cli': ('http', 'http'), 'env': ('gopher', 'gopher'), 'profile': ('ftp', 'ftp'), 'default': ('ws', 'ws')},
            'https', 'scheme', cli=lambda v: ['--scheme', v], env='S3C_SCHEME', key='scheme', backend='s3c'),
        Opt('b2.key_id', 'ctor', ('cli', 'env', 'profile', 'default'),
            {'cli': ('k-cli', 'k-cli'), 'env': ('k-env', 'k-env'), 'profile': ('k-profile', 'k-profile'), 'default': ('k-default', 'k-default')},
            'MISSING', 'key_id', cli=lambda v: ['--key-id', v], env='B2_KEY_ID', key='key-id', backend='b2'),
    ]
    return opts


class Check(CheckBase):
    property_id = 'C19'
    evaluations_counter = 'invocations'
    level = 'exploration'
    rule = ('the program entry point replicat.__main__.main() is run with freshly imported modules for every cell of the lattice '
            '(option x subset of the sources {command line, environment variable, selected profile, defaults section} in which the '
            'option can be set, every source carrying a distinguishable value, TOML values typed natively and as strings) x commands; '
            'the arguments with which the command handler and the backend constructor are invoked are recorded (handler replaced by a '
            'recorder, constructor spied) and compared with a 10-line precedence function. Options: repository, concurrent, '
            'hide-progress, cache-directory / no-cache, password / password-file, key / key-file, five typed options of a custom '
            'backend discovered through the namespace package, an option of a backend derived from it, and options of s3, s3c, b2. '
            'Seeded combinations of 2-4 options, each in its own subset of sources, are run as well. Mutually exclusive pairs must be rejected. The single-option lattice is enumerated completely for two commands (quick) '
            'or all fifteen (thorough). class = (option, source subset) and (command)')
    assumptions = ['the handler arguments are observed with _cmd_handler replaced; the command itself does not run']
    case_timeout = 600

    def generate(self):
        quick = self.tier == 'quick'
        cmds = ['list-snapshots', 'snapshot'] if quick else list(COMMANDS)
        cases = []
        scratch_probe = tempfile.mkdtemp(prefix='vf-c19p-', dir=paths.scratch_root())
        try:
            opts = options(scratch_probe)
            cells = []
            for oi, o in enumerate(opts):
                for k in range(0, len(o.sources) + 1):
                    for subset in itertools.combinations(o.sources, k):
                        cells.append((oi, list(subset)))
        finally:
            shutil.rmtree(scratch_probe, ignore_errors=True)
        r = random.Random(f'C19/{self.seed}')
        per = 60
        for cmd in cmds:
            for i in range(0, len(cells), per):
                cases.append({'kind': 'lattice', 'command': cmd, 'cells': cells[i:i + per]})
        # several options at once, each in its own random subset of sources (seeded)
        ncombo = 120 if quick else 40000
        vf_opts = [oi for oi, o in enumerate(opts) if o.backend == 'vfspy']
        combos = []
        for _ in range(ncombo):
            chosen, keys = [], set()
            for oi in r.sample(vf_opts, r.randint(2, 4)):
                o = opts[oi]
                group = {'no-cache': 'cache', 'cache-directory': 'cache', 'password': 'pw', 'password-file': 'pw', 'key': 'key',
                         'key-file': 'key', 'hide-progress': 'hp', 'hide-progress(false)': 'hp'}.get(o.name, o.name)
                if group in keys:
                    continue
                keys.add(group)
                k = r.randint(0, len(o.sources))
                chosen.append((oi, sorted(r.sample(list(o.sources), k), key=SOURCES.index)))
            combos.append(chosen)
        for i in range(0, len(combos), 40):
            cases.append({'kind': 'combo', 'command': r.choice(cmds), 'combos': combos[i:i + 40]})
        cases.append({'kind': 'repository', 'commands': cmds})
        cases.append({'kind': 'exclusive'})
        cases.append({'kind': 'every-command'})
        return cases

    def floors(self, agg):
        c = agg['counters']
        unmet = []
        if c.get('cells_missing', 1) != 0 and c.get('lattice_cells_expected', 0) != c.get('lattice_cells_run', -1):
            unmet.append(f'lattice cells run {c.get("lattice_cells_run", 0)} of {c.get("lattice_cells_expected", 0)}')
        if c.get('invocations', 0) < 500:
            unmet.append('fewer than 500 invocations of the entry point')
        if c.get('commands_reached_handler', 0) < len(COMMANDS):
            unmet.append('not every subcommand reached the handler')
        if c.get('exclusive_pairs', 0) < 4:
            unmet.append('mutually exclusive pairs not exercised')
        return unmet

    def extra_coverage(self, agg):
        c = agg['counters']
        return {'exhaustive': c.get('lattice_cells_expected', 0) == c.get('lattice_cells_run', -1)}

    # ---------------------------------------------------------------------------------------------------
    def _env(self, scratch):
        ext = os.path.join(scratch, 'ext', 'replicat', 'backends')
        os.makedirs(ext, exist_ok=True)
        with open(os.path.join(ext, 'vfspy.py'), 'w') as f:
            f.write(SPY)
        with open(os.path.join(ext, 'vfspy2.py'), 'w') as f:
            f.write(SPY2)
        home = os.path.join(scratch, 'home')
        os.makedirs(os.path.join(home, 'cwd'), exist_ok=True)
        return {'pythonpath': [os.path.join(scratch, 'ext')],
                'base_env': {'HOME': home, 'XDG_CONFIG_HOME': os.path.join(home, 'cfg'), 'XDG_CACHE_HOME': os.path.join(home, 'cache')},
                'cwd': os.path.join(home, 'cwd'), 'builtin_cache': os.path.join(home, 'cache', 'replicat')}

    def _run(self, scenarios, env):
        spec = {'scenarios': scenarios, 'pythonpath': env['pythonpath'], 'base_env': env['base_env']}
        p = subprocess.run([paths.PYTHON, '-m', 'vflib.clichild'], input=json.dumps(spec), capture_output=True, text=True,
                           timeout=500, cwd=str(paths.VERIF))
        outs = [json.loads(l) for l in p.stdout.splitlines() if l.startswith('{')]
        if len(outs) != len(scenarios):
            raise RuntimeError(f'child produced {len(outs)} results for {len(scenarios)} scenarios: {p.stderr[-800:]}')
        return outs

    def run_case(self, case):
        scratch = tempfile.mkdtemp(prefix='vf-c19-', dir=paths.scratch_root())
        try:
            env = self._env(scratch)
            if case['kind'] == 'lattice':
                return self._lattice(case, scratch, env)
            if case['kind'] == 'combo':
                return self._combo(case, scratch, env)
            if case['kind'] == 'repository':
                return self._repository(case, scratch, env)
            if case['kind'] == 'exclusive':
                return self._exclusive(case, scratch, env)
            return self._every_command(case, scratch, env)
        finally:
            shutil.rmtree(scratch, ignore_errors=True)

    @staticmethod
    def _config(scratch, idx, default_lines, profile_lines):
        path = os.path.join(scratch, f'cfg{idx}.toml')
        with open(path, 'w') as f:
            f.write('\n'.join(default_lines) + '\n[prof]\n' + '\n'.join(profile_lines) + '\n[other]\nconcurrent = 99\n')
        return path

    def _lattice(self, case, scratch, env):
        opts = options(scratch)
        cmd = case['command']
        scenarios, expected = [], []
        for ci, (oi, subset) in enumerate(case['cells']):
            o = opts[oi]
            argv_head, envv, dl, pl = [], {}, [], []
            repo = {'vfspy': 'vfspy:conn', 'vfspy2': 'vfspy2:conn', 's3': 's3:bucket', 's3c': 's3c:bucket', 'b2': 'b2:bucket'}[o.backend]
            # a complete set of required backend options, so that only the option under test varies
            fill = {'vfspy': ['--token', 'FILL'], 'vfspy2': ['--token', 'FILL'],
                    's3': ['--key-id', 'K', '--access-key', 'A', '--region', 'FILL'],
                    's3c': ['--key-id', 'K', '--access-key', 'A', '--region', 'R', '--host', 'h'],
                    'b2': ['--key-id', 'FILL', '--application-key', 'A']}[o.backend]
            tail = []
            for src in subset:
                spelled, _ = o.values[src]
                if src == 'cli':
                    tail += o.cli(spelled)
                elif src == 'env':
                    envv[o.env] = spelled
                elif src == 'profile':
                    pl.append(f'{o.key} = {toml_value(spelled)}')
                else:
                    dl.append(f'{o.key} = {toml_value(spelled)}')
            # drop the filler for the option under test unless the CLI is one of its sources
            if o.where == 'ctor':
                flag = '--' + o.key.replace('_', '-')
                if flag in fill:
                    i = fill.index(flag)
                    fill = fill[:i] + fill[i + 2:]
            cfg = self._config(scratch, ci, dl, pl)
            argv = COMMANDS[cmd] + ['-r', repo, '--config', cfg, '--profile', 'prof'] + fill + tail
            scenarios.append({'id': ci, 'argv': argv, 'env': envv, 'cwd': env['cwd']})
            want = o.builtin
            for src in SOURCES:
                if src in subset:
                    want = o.values[src][1]
                    break
            expected.append(want)
        outs = self._run(scenarios, env)
        counters = {'invocations': len(outs), 'lattice_cells_run': len(outs), 'lattice_cells_expected': len(case['cells'])}
        classes, violations = set(), []
        for (oi, subset), sc, out, want in zip(case['cells'], scenarios, outs, expected):
            o = opts[oi]
            label = '+'.join(subset) or 'none'
            classes.add(f'{o.name}|{label}')
            classes.add(f'command|{cmd}')
            if want == 'BUILTIN-CACHE':
                want = {'path': env['builtin_cache']}
            if want == 'MISSING':
                # a required constructor argument set nowhere: the constructor is called without it
                if out.get('ok') and o.observe in (out.get('ctor') or {}):
                    violations.append(self._v(o, subset, cmd, 'absent (set in no source)', out['ctor'][o.observe], sc, out))
                continue
            if not out.get('ok'):
                violations.append(self._v(o, subset, cmd, want, f'entry point failed: {out.get("error")} {out.get("stderr", "")[-160:]}', sc, out))
                continue
            got = (out['ctor'] if o.where == 'ctor' else out['args']).get(o.observe, '<absent>')
            if got != want or type(got) is not type(want):
                violations.append(self._v(o, subset, cmd, want, got, sc, out))
        return {'verdict': 'violated' if violations else 'held', 'classes': sorted(classes), 'counters': counters,
                'violations': violations[:6]}

    def _combo(self, case, scratch, env):
        opts = options(scratch)
        cmd = case['command']
        scenarios, expected = [], []
        for ci, combo in enumerate(case['combos']):
            tail, envv, dl, pl = [], {}, [], []
            fill = ['--token', 'FILL']
            exp = []
            for oi, subset in combo:
                o = opts[oi]
                for src in subset:
                    spelled, _ = o.values[src]
                    if src == 'cli':
                        tail += o.cli(spelled)
                    elif src == 'env':
                        envv[o.env] = spelled
                    elif src == 'profile':
                        pl.append(f'{o.key} = {toml_value(spelled)}')
                    else:
                        dl.append(f'{o.key} = {toml_value(spelled)}')
                if o.name == 'token':
                    fill = []
                want = o.builtin
                for src in SOURCES:
                    if src in subset:
                        want = o.values[src][1]
                        break
                exp.append((o, subset, want))
            cfg = self._config(scratch, ci, dl, pl)
            scenarios.append({'id': ci, 'argv': COMMANDS[cmd] + ['-r', 'vfspy:conn', '--config', cfg, '--profile', 'prof'] + fill + tail,
                              'env': envv, 'cwd': env['cwd']})
            expected.append(exp)
        outs = self._run(scenarios, env)
        classes, violations = set(), []
        for sc, out, exp in zip(scenarios, outs, expected):
            classes.add('combo|' + '&'.join(sorted(o.name for o, _, _ in exp)))
            for o, subset, want in exp:
                if want == 'BUILTIN-CACHE':
                    want = {'path': env['builtin_cache']}
                if want == 'MISSING':
                    if out.get('ok') and o.observe in (out.get('ctor') or {}):
                        violations.append(self._v(o, subset, cmd, 'absent (set in no source)', out['ctor'][o.observe], sc, out))
                    continue
                if not out.get('ok'):
                    violations.append(self._v(o, subset, cmd, want, f'entry point failed: {out.get("error")} {out.get("stderr", "")[-160:]}', sc, out))
                    break
                got = (out['ctor'] if o.where == 'ctor' else out['args']).get(o.observe, '<absent>')
                if got != want or type(got) is not type(want):
                    violations.append(self._v(o, subset, cmd, want, got, sc, out))
        return {'verdict': 'violated' if violations else 'held', 'classes': sorted(classes),
                'counters': {'invocations': len(outs), 'option_combinations': len(outs)}, 'violations': violations[:6]}

    @staticmethod
    def _v(o, subset, cmd, want, got, sc, out):
        return {'what': f'option {o.name} set in {subset or "no source"} ({cmd}): effective value {got!r}, precedence says {want!r}',
                'mechanism': None, 'witness': {'argv': sc['argv'], 'env': sc['env'], 'config': open(next(a for a in sc['argv'] if str(a).endswith('.toml'))).read()[:400]}}

    def _repository(self, case, scratch, env):
        """repository: CLI -r > REPLICAT_REPOSITORY > profile > defaults > ('local', cwd)."""
        vals = {'cli': 'vfspy:from-cli', 'env': 'vfspy:from-env', 'profile': 'vfspy:from-profile', 'default': 'vfspy:from-default'}
        scenarios, expected, labels = [], [], []
        idx = 0
        for cmd in case['commands']:
            for k in range(0, 5):
                for subset in itertools.combinations(SOURCES, k):
                    dl = [f'repository = {json.dumps(vals["default"])}'] if 'default' in subset else []
                    pl = [f'repository = {json.dumps(vals["profile"])}'] if 'profile' in subset else []
                    cfg = self._config(scratch, idx, dl, pl)
                    # every accepted spelling of a flag is 'given on the command line': short, long, unambiguous abbreviation
                    r_flag = ['-r', '--repository', '--repo'][idx % 3]
                    p_flag, c_flag = ['--profile', '--prof'][(idx // 3) % 2], ['--config', '--conf'][(idx // 6) % 2]
                    argv = COMMANDS[cmd] + ([r_flag, vals['cli']] if 'cli' in subset else []) + [c_flag, cfg, p_flag, 'prof']
                    if subset:
                        argv += ['--token', 'T']
                    envv = {'REPLICAT_REPOSITORY': vals['env']} if 'env' in subset else {}
                    scenarios.append({'id': idx, 'argv': argv, 'env': envv, 'cwd': env['cwd']})
                    want = next((vals[s].split(':', 1) for s in SOURCES if s in subset), ['local', env['cwd']])
                    expected.append(want)
                    labels.append((cmd, subset))
                    idx += 1
        outs = self._run(scenarios, env)
        classes, violations = set(), []
        abbreviations_rejected = [0]
        for (cmd, subset), sc, out, want in zip(labels, scenarios, outs, expected):
            classes.add(f'repository|{"+".join(subset) or "none"}')
            got = [out.get('short_name') if out.get('short_name') != 'Local' else 'local', out.get('connection')] if out.get('ok') else None
            abbreviated = any(a in ('--repo', '--prof', '--conf') for a in sc['argv'])
            if not out.get('ok') and abbreviated and out.get('exit') == 2 and any(
                    w in (out.get('stderr') or '') for w in ('unrecognized arguments', 'ambiguous option', 'expected one argument')):
                # a program that does not accept abbreviations at all rejects the command line: nothing was 'given'
                abbreviations_rejected[0] += 1
                continue
            if not out.get('ok') or [got[0].lower() if got[0] else None, got[1]] != [want[0], want[1]]:
                violations.append({'what': f'repository set in {list(subset) or "no source"} ({cmd}): effective {got}, precedence says {want}',
                                   'mechanism': None, 'witness': {'argv': sc['argv'], 'env': sc['env'], 'error': out.get('error'),
                                                                  'stderr': out.get('stderr')}})
        return {'verdict': 'violated' if violations else 'held', 'classes': sorted(classes),
                'counters': {'invocations': len(outs), 'repository_cells': len(outs), 'abbreviations_rejected_outright': abbreviations_rejected[0]},
                'violations': violations[:5]}

    def _exclusive(self, case, scratch, env):
        pw = os.path.join(scratch, 'pw')
        open(pw, 'w').write('x')
        base = ['-r', 'vfspy:c']
        ls = ['list-snapshots'] + base
        cfgs = {
            'cli -p + -P': (ls + ['--ignore-config', '--token', 't', '-p', 'a', '-P', pw], None),
            'cli --no-cache + --cache-directory': (ls + ['--ignore-config', '--token', 't', '--no-cache', '--cache-directory', '/x'], None),
            'cli --ignore-config + --config': (ls + ['--ignore-config', '--config', '/nonexistent', '--token', 't'], None),
            'config key + key-file': (None, f'key = "k"\nkey-file = {json.dumps(pw)}\n'),
            'config password + password-file': (None, f'password = "k"\npassword-file = {json.dumps(pw)}\n'),
            # an empty value is a value: the pair is still given twice, also across the sections of the file
            'config empty password + password-file': (None, f'password = ""\npassword-file = {json.dumps(pw)}\n'),
            'config empty key + key-file': (None, f'key = ""\nkey-file = {json.dumps(pw)}\n'),
            'config empty password (default section) + password-file (profile)':
                (None, f'password = ""\n[prof]\npassword-file = {json.dumps(pw)}\n', ['--profile', 'prof']),
            'cli add-key --shared + --clone': (['add-key'] + base + ['--ignore-config', '--token', 't', '--shared', '--clone'], None),
            'cli add-key -n + -N': (['add-key'] + base + ['--ignore-config', '--token', 't', '-n', 'a', '-N', pw], None),
        }
        scenarios, names = [], []
        for i, (name, spec) in enumerate(cfgs.items()):
            argv, cfg, extra = (spec + ([],))[:3] if len(spec) == 2 else spec
            if argv is None:
                path = os.path.join(scratch, f'x{i}.toml')
                open(path, 'w').write(cfg)
                argv = ls + ['--config', path, '--token', 't'] + list(extra)
            scenarios.append({'id': i, 'argv': argv, 'env': {}, 'cwd': env['cwd']})
            names.append(name)
        outs = self._run(scenarios, env)
        v = []
        for name, sc, out in zip(names, scenarios, outs):
            if out.get('ok'):
                v.append({'what': f'mutually exclusive options accepted: {name}', 'mechanism': None, 'witness': {'argv': sc['argv']}})
        return {'verdict': 'violated' if v else 'held', 'classes': [f'exclusive|{n}' for n in names],
                'counters': {'invocations': len(outs), 'exclusive_pairs': len(outs)}, 'violations': v}

    def _every_command(self, case, scratch, env):
        scenarios = []
        cfg = self._config(scratch, 0, ['concurrent = 21'], ['hide-progress = true'])
        for i, (cmd, argv) in enumerate(COMMANDS.items()):
            scenarios.append({'id': i, 'argv': argv + ['-r', 'vfspy:c', '--config', cfg, '--profile', 'prof', '--token', 'T', '-c', '4'],
                              'env': {'VFSPY_REGION': 'env-region'}, 'cwd': env['cwd']})
        outs = self._run(scenarios, env)
        v, reached = [], 0
        for (cmd, _), sc, out in zip(COMMANDS.items(), scenarios, outs):
            if not out.get('ok'):
                v.append({'what': f'{cmd}: entry point failed: {out.get("error")}', 'mechanism': None,
                          'witness': {'argv': sc['argv'], 'stderr': out.get('stderr')}})
                continue
            reached += 1
            a, c = out['args'], out['ctor']
            if a.get('concurrent') != 4 or a.get('quiet') is not True or c.get('region') != 'env-region' or c.get('token') != 'T' \
                    or c.get('retries') != 3:
                v.append({'what': f'{cmd}: handler/constructor arguments do not follow the precedence', 'mechanism': None,
                          'witness': {'args': {k: a.get(k) for k in ('concurrent', 'quiet')}, 'ctor': c}})
        return {'verdict': 'violated' if v else 'held', 'classes': [f'command|{c}' for c in COMMANDS],
                'counters': {'invocations': len(outs), 'commands_reached_handler': reached}, 'violations': v[:5]}
