"""C12 - transient backend faults are masked, persistent ones end in a bounded error."""
import ast
import asyncio
import inspect
import io
import os
import random
import shutil
import sys
import tempfile
import textwrap
from pathlib import Path

from .. import gen, paths
from ..harness import CheckBase

IO_CALLS = {'open', 'write_bytes', 'read_bytes', 'copyfileobj', 'replace', 'unlink', 'fstat', 'truncate', 'mkdir', 'scandir',
            'NamedTemporaryFile', 'exists', 'rename', 'remove', 'rmdir'}
TOOL = 4
ATTEMPT_BOUND = {'local': 100, 's3': 100, 'b2': 400}      # far above any sane retry policy, still finite
TRANSIENT_COUNTS = (1, 2, 3)


def io_lines(func):
    """Line numbers (absolute, in the working tree's source) of statements of `func` that contain an I/O call."""
    src = textwrap.dedent(inspect.getsource(func))
    first = func.__code__.co_firstlineno
    tree = ast.parse(src)
    lines = set()
    for node in ast.walk(tree):
        if isinstance(node, ast.Call):
            f = node.func
            name = f.attr if isinstance(f, ast.Attribute) else getattr(f, 'id', None)
            if name in IO_CALLS:
                lines.add(first + node.lineno - 1)
    # the def line of a decorated function is not an I/O statement
    return sorted(lines)


class FaultyStream(io.BytesIO):
    """Payload stream that raises OSError at the k-th read / write, `times` times in total (None = forever)."""

    def __init__(self, data=b'', fail_read=None, fail_write=None, times=1):
        super().__init__(data)
        self.fail_read, self.fail_write, self.times = fail_read, fail_write, times
        self.reads = self.writes = self.fired = 0
        self.seeks_to_zero = 0

    def _maybe(self, n, k):
        if k is not None and n == k and (self.times is None or self.fired < self.times):
            self.fired += 1
            raise OSError(5, 'vf: injected I/O error in the payload stream')

    def read(self, *a):
        self.reads += 1
        self._maybe(self.reads, self.fail_read)
        return super().read(*a)

    def write(self, b):
        self.writes += 1
        self._maybe(self.writes, self.fail_write)
        return super().write(b)

    def seek(self, pos, whence=0):
        if pos == 0 and whence == 0:
            self.seeks_to_zero += 1
            self.reads = self.writes = 0          # positions of faults are counted per attempt
        return super().seek(pos, whence)


class _NoSleep:
    def __init__(self, real, log):
        self._real, self._log = real, log

    def __getattr__(self, name):
        return getattr(self._real, name)


class Check(CheckBase):
    property_id = 'C12'
    evaluations_counter = 'plans'
    level = 'fault_enumeration'
    rule = ('fault plans = backend in {Local, S3Compatible, S3, B2} x operation in {upload, upload_stream, download, download_stream, '
            'exists, delete, list_files} x fault kind x position x consecutive count in {1,2,3 (inside every retry budget), forever}. '
            'Local: OSError raised (sys.monitoring LINE callback) at every executed statement of the method that contains an I/O '
            'call (set computed from the AST of the working tree), and OSError from the payload stream at the k-th read/write. '
            'S3/B2 (fake services behind httpx transports): connection refused, connection lost after k request-body chunks, after '
            'k response chunks (the effect took place), 500/503/408, 429 with Retry-After, B2 401 expired token before any call and '
            'in mid-upload. Payload sizes {0,1,c-1,c,c+1,3c+1} for stream chunk size c. Oracle: within the budget the call '
            'succeeds and the bytes at the service/directory and in the destination stream equal the intended ones, no temporary '
            'or half object is left; with a persistent fault the call raises (not RecursionError, never returns normally) after a '
            'bounded number of attempts counted at the service, the old object is intact. Repository level: snapshot + restore '
            'through the fake services under seeded transient fault schedules restore identical bytes. Retry waits are virtual. '
            'Listings under an injected I/O error (also in the directory walkers of replicat.utils.fs, at the k-th directory) must raise or be '
            'complete and duplicate-free; a request the service refuses (400/403 with a foreign code) is never reported as success. '
            'class = (backend, operation, fault kind, position class, count)')
    assumptions = ['attempt bounds: 100 for Local/S3, 400 for B2 (its retry layers nest) - far above any sane policy, so constants may be '
                   'tuned freely; an unbounded loop exceeds them within a second because retry waits are virtual', 'fake services are part of the trusted base']
    case_timeout = 300

    def generate(self):
        quick = self.tier == 'quick'
        cases = []
        for i in range(48 if quick else 1500):
            cases.append({'kind': 'local', 'seed': random.Random(f'C12/{self.seed}/l/{i}').randrange(1 << 30), 'plans': 40 if quick else 80})
        for i in range(64 if quick else 2200):
            cases.append({'kind': ['s3', 'b2'][i % 2], 'seed': random.Random(f'C12/{self.seed}/h/{i}').randrange(1 << 30),
                          'plans': 30 if quick else 60})
        for i in range(32 if quick else 700):
            r = random.Random(f'C12/{self.seed}/r/{i}')
            cases.append({'kind': 'repo', 'backend': ['s3', 'b2'][i % 2], 'seed': r.randrange(1 << 30),
                          'settings': gen.gen_settings(r, chunker=(64, 1024))})
        return cases

    def worker_setup(self):
        from .. import rep, fakehttp  # noqa: F401

    def floors(self, agg):
        c = agg['counters']
        unmet = []
        if c.get('plans', 0) < (1500 if self.tier == 'quick' else 40000):
            unmet.append(f'fault plans executed {c.get("plans", 0)} below floor')
        for b in ('local', 's3', 'b2'):
            for op in ('upload', 'upload_stream', 'download', 'download_stream'):
                if not any(k.startswith(f'{b}|{op}|') and '|inside|' in k for k in agg['classes']):
                    unmet.append(f'no fault strictly inside a transfer for {b}/{op}')
        if c.get('persistent_plans', 0) < 100:
            unmet.append('too few persistent-fault plans')
        if c.get('rewinds_observed', 0) < 50:
            unmet.append('too few rewinds observed on payload streams')
        if c.get('repo_level_runs', 0) < 8:
            unmet.append('too few repository-level runs under faults')
        return unmet[:6]

    # -- virtual waits -------------------------------------------------------------------------------------
    def _patch_time(self):
        import backoff._async
        import backoff._sync
        import replicat.backends.b2 as b2mod
        waits = []
        real_a, real_t, real_b2 = backoff._async.asyncio, backoff._sync.time, b2mod.asyncio

        class A(_NoSleep):
            async def sleep(self, delay, *a, **k):
                waits.append(delay)
                await real_a.sleep(0)

        class T(_NoSleep):
            def sleep(self, delay):
                waits.append(delay)
        backoff._async.asyncio, backoff._sync.time, b2mod.asyncio = A(real_a, waits), T(real_t, waits), A(real_b2, waits)

        def undo():
            backoff._async.asyncio, backoff._sync.time, b2mod.asyncio = real_a, real_t, real_b2
        return waits, undo

    def run_case(self, case):
        scratch = tempfile.mkdtemp(prefix='vf-c12-', dir=paths.scratch_root())
        waits, undo = self._patch_time()
        try:
            if case['kind'] == 'local':
                res = self._local(case, scratch)
            elif case['kind'] == 'repo':
                res = self._repo(case, scratch)
            else:
                res = self._http(case, scratch)
            res['counters']['virtual_waits'] = len(waits)
            return res
        finally:
            undo()
            shutil.rmtree(scratch, ignore_errors=True)

    # -- Local -------------------------------------------------------------------------------------------------
    def _local(self, case, scratch):
        from replicat.backends.local import Local
        r = random.Random(case['seed'])
        counters, classes, violations = {'plans': 0}, set(), []
        methods = {name: inspect.unwrap(getattr(Local, name)) for name in
                   ('upload', 'upload_stream', 'download', 'download_stream', 'delete', 'exists', 'list_files')}
        # every other function defined in the class is a helper any operation may run through (today
        # _destination_temp, _find_deletable; a refactoring may add more)
        helpers = []
        for nm, v in vars(Local).items():
            fn = inspect.unwrap(v) if callable(v) else None
            if fn is not None and hasattr(fn, '__code__') and nm not in methods and nm not in ('__init__', 'clean'):
                helpers.append(fn)
        lines = {name: io_lines(fn) for name, fn in methods.items()}
        helper_targets = [(fn.__code__, ln) for fn in helpers for ln in io_lines(fn)]
        # the directory walkers the listing is built on (replicat.utils.fs), whatever they are called
        import replicat.utils.fs as _fs
        walkers = [fn for fn in vars(_fs).values() if inspect.isfunction(fn) and fn.__module__ == _fs.__name__]
        walker_targets = [(fn.__code__, ln) for fn in walkers for ln in io_lines(fn)]
        mon = sys.monitoring
        state = {'target': None, 'left': 0, 'fired': 0, 'exc': OSError, 'errno': 5, 'skip': 0}

        def on_line(code, line):
            t = state['target']
            if t is not None and code is t[0] and line == t[1] and (state['left'] is None or state['left'] > 0):
                if state['skip'] > 0:
                    state['skip'] -= 1
                    return
                if state['left'] is not None:
                    state['left'] -= 1
                state['fired'] += 1
                raise state['exc'](state['errno'], f'vf: injected I/O error at {code.co_name}:{line}')
        if mon.get_tool(TOOL) is not None:
            mon.free_tool_id(TOOL)
        mon.use_tool_id(TOOL, 'vf-failpoints')
        mon.register_callback(TOOL, mon.events.LINE, on_line)
        codes = [fn.__code__ for fn in methods.values()] + [fn.__code__ for fn in helpers] + [fn.__code__ for fn in walkers]
        for c in codes:
            mon.set_local_events(TOOL, c, mon.events.LINE)

        def viol(what, **w):
            violations.append({'what': what, 'mechanism': None, 'witness': w})
        try:
            for p in range(case['plans']):
                repo = os.path.join(scratch, f'repo{p}')
                os.makedirs(repo)
                be = Local(repo)
                c = r.choice([7, 64, 1000])
                old = r.randbytes(r.choice([0, 5, 2 * c]))
                new = r.randbytes(r.choice([0, 1, c - 1, c, c + 1, 3 * c + 1]))
                name = r.choice(['obj', 'd/e/obj', 'a b/ö'])
                be.upload(name, old)
                op = r.choice(['upload', 'upload_stream', 'upload_stream', 'download', 'download_stream', 'download_stream', 'delete',
                               'exists', 'list_files'])
                count = r.choice(TRANSIENT_COUNTS + (None,))
                mode = r.choice(['line', 'stream']) if op in ('upload_stream', 'download_stream') else 'line'
                live = {name}
                if op == 'list_files':
                    for extra in ('d/e/obj2', 'd/f/x', 'k/1', 'k/2', 'top'):
                        be.upload(extra, b'x')
                        live.add(extra)
                stream = None
                if mode == 'line':
                    fn = methods[op]
                    cand = [(fn.__code__, ln) for ln in lines[op]]
                    if op in ('upload', 'upload_stream'):
                        cand += helper_targets
                    if op == 'list_files':
                        cand += walker_targets
                    if not cand:
                        continue
                    target = r.choice(cand)
                    # the kind of OSError: EIO anywhere; for uploads also the kinds the code itself names as transient
                    # (PermissionError on a simultaneous replace, a directory removed by a concurrent clean-up)
                    exc, eno = OSError, 5
                    if op in ('upload', 'upload_stream') and count is not None and r.random() < 0.4:
                        exc, eno = r.choice([(PermissionError, 13), (FileNotFoundError, 2), (BlockingIOError, 11), (InterruptedError, 4)])
                    if op == 'list_files' and r.random() < 0.5:
                        exc, eno = r.choice([(OSError, 24), (PermissionError, 13), (OSError, 116)])       # EMFILE, EACCES, ESTALE
                    state.update(target=target, left=count, fired=0, exc=exc, errno=eno,
                                 skip=r.choice([0, 0, 1, 2, 3]) if op == 'list_files' else 0)
                    pos = 'inside' if op in ('upload_stream', 'download_stream', 'upload', 'download') else 'call'
                    label = f'line:{target[0].co_name}' + ('' if exc is OSError else f'[{exc.__name__}]')
                else:
                    k = r.choice([1, 2, 3])
                    state.update(target=None, left=0, fired=0)
                    pos = 'inside'
                    label = f'stream@{k}'
                counters['plans'] += 1
                if count is None:
                    counters['persistent_plans'] = counters.get('persistent_plans', 0) + 1
                classes.add(f'local|{op}|{label.split(":")[0]}|{pos}|{"forever" if count is None else count}')
                outcome, err, result = 'returned', None, None
                try:
                    if op == 'upload':
                        be.upload(name, new)
                    elif op == 'upload_stream':
                        stream = FaultyStream(new, fail_read=(k if mode == 'stream' else None), times=count)
                        be.upload_stream(name, stream, len(new), c)
                    elif op == 'download':
                        result = be.download(name)
                    elif op == 'download_stream':
                        stream = FaultyStream(b'stale' * 50, fail_write=(k if mode == 'stream' else None), times=count)
                        be.download_stream(name, stream, c)
                    elif op == 'delete':
                        be.delete(name)
                    elif op == 'exists':
                        result = be.exists(name)
                    else:
                        result = list(be.list_files(''))
                except RecursionError as e:
                    outcome, err = 'recursion', e
                except Exception as e:
                    outcome, err = 'raised', e
                fired = state['fired'] + (stream.fired if stream is not None else 0)
                state.update(target=None)
                if stream is not None and stream.seeks_to_zero:
                    counters['rewinds_observed'] = counters.get('rewinds_observed', 0) + 1
                counters['max_attempts_local'] = max(counters.get('max_attempts_local', 0), fired)
                on_disk = {os.path.relpath(os.path.join(dp, f), repo): open(os.path.join(dp, f), 'rb').read()
                           for dp, _, fs in os.walk(repo) for f in fs}
                temps = [n for n in on_disk if n not in live]           # anything but the objects themselves is a leftover
                w = {'op': op, 'fault': label, 'count': count, 'fired': fired, 'sizes': (len(old), len(new)), 'chunk': c,
                     'error': repr(err)[:200]}
                if fired == 0:
                    counters['plans_fault_not_reached'] = counters.get('plans_fault_not_reached', 0) + 1
                    continue
                if temps:
                    viol(f'a temporary file is left behind after {op} with {label} x{count}', temps=temps[:2], **w)
                if op == 'list_files':
                    # The masking clause is about uploads and downloads, so a listing may give up with an error; what it may
                    # not do is swallow the I/O error and return normally with something that is not the listing.
                    counters['listings_under_io_error'] = counters.get('listings_under_io_error', 0) + 1
                    if outcome == 'returned' and sorted(result) != sorted(live):
                        viol(f'list_files hit an I/O error ({label}, errno {state["errno"]}) and returned normally with '
                             f'{len(result)} name(s) of {len(live)}: the error is reported as a (partly) empty or repeated listing',
                             listed=sorted(result)[:8], **w)
                    elif outcome == 'recursion':
                        viol('list_files under an I/O error ended in RecursionError', **w)
                    if fired > ATTEMPT_BOUND['local']:
                        viol(f'list_files under a persistent fault made {fired} attempts', **w)
                    shutil.rmtree(repo, ignore_errors=True)
                    continue
                if count is not None:
                    if outcome != 'returned':
                        viol(f'{op}: {count} consecutive transient fault(s) ({label}) were not masked: {type(err).__name__}', **w)
                        continue
                    if op in ('upload', 'upload_stream') and on_disk.get(name) != new:
                        viol(f'{op} after {count} transient fault(s) ({label}) stored {len(on_disk.get(name, b""))} bytes that are not the '
                             f'payload ({len(new)} bytes)', **w)
                    if op == 'download' and result != old:
                        viol(f'download after transient faults returned other bytes', **w)
                    if op == 'download_stream' and stream.getvalue() != old:
                        viol(f'download_stream after {count} transient fault(s) ({label}) delivered {len(stream.getvalue())} bytes, object has '
                             f'{len(old)}', **w)
                    if op == 'delete' and name in on_disk:
                        viol('delete after transient faults did not delete', **w)
                    if op == 'exists' and result is not True:
                        viol('exists after transient faults returned a wrong answer', **w)
                else:
                    if outcome == 'returned':
                        viol(f'{op} returned normally although {label} fails for good', **w)
                    elif outcome == 'recursion':
                        viol(f'{op} under a persistent fault ended in RecursionError', **w)
                    if fired > ATTEMPT_BOUND['local']:
                        viol(f'{op} under a persistent fault made {fired} attempts', **w)
                    if op in ('upload', 'upload_stream') and on_disk.get(name) != old:
                        viol(f'after a failed {op} the previous object is no longer intact', **w)
                    if stream is not None and op == 'upload_stream' and outcome == 'raised' and stream.tell() != 0:
                        viol('after a failed upload_stream the payload stream is not rewound', position=stream.tell(), **w)
                shutil.rmtree(repo, ignore_errors=True)
                if len(violations) > 4:
                    break
        finally:
            for c_ in codes:
                mon.set_local_events(TOOL, c_, 0)
            mon.register_callback(TOOL, mon.events.LINE, None)
            mon.free_tool_id(TOOL)
        counters['io_lines_found'] = sum(len(v) for v in lines.values()) + len(helper_targets)
        return {'verdict': 'violated' if violations else 'held', 'classes': sorted(classes), 'counters': counters,
                'violations': violations[:4]}

    # -- S3 / B2 -----------------------------------------------------------------------------------------------------
    def _service(self, kind, r, faults):
        from .. import fakehttp
        if kind == 's3':
            import replicat.backends.s3c as s3c
            be = s3c.S3Compatible('bkt', key_id='k', access_key='s', region='r1', host='h.vf.test', scheme='https')
            svc = fakehttp.FakeS3('bkt', {'k': 's'}, page_size=2, faults=faults, response_chunk=50)
            return fakehttp.attach(be, svc), svc, (lambda: dict(svc.objects))
        from replicat.backends.b2 import B2
        be = B2('my-bucket', key_id='kid', application_key='appkey')
        svc = fakehttp.FakeB2('my-bucket', 'kid', 'appkey', page_size=2, faults=faults, response_chunk=50)
        return fakehttp.attach(be, svc), svc, svc.live

    OPS_OF = {'s3': {'upload': 's3:PUT', 'upload_stream': 's3:PUT', 'download': 's3:GET', 'download_stream': 's3:GET',
                     'exists': 's3:HEAD', 'delete': 's3:DELETE', 'list_files': 's3:LIST'},
              'b2': {'upload': 'b2:upload', 'upload_stream': 'b2:upload', 'download': 'b2:download', 'download_stream': 'b2:download',
                     'exists': 'b2:head', 'delete': 'b2:hide_file', 'list_files': 'b2:list_file_names'}}
    B2_AUX = ['b2:get_upload_url', 'b2:list_buckets', 'b2:authorize']

    def _http(self, case, scratch):
        kind = case['kind']
        r = random.Random(case['seed'])
        counters, classes, violations = {'plans': 0}, set(), []
        slow = []

        def viol(what, **w):
            violations.append({'what': what, 'mechanism': None, 'witness': w})

        async def one(p):
            c = r.choice([7, 64, 300])
            old = r.randbytes(r.choice([0, 5, 2 * c]))
            new = r.randbytes(r.choice([0, 1, c - 1, c, c + 1, 3 * c + 1]))
            name = r.choice(['obj', 'd/e/obj', 'a b/ö', 'q?x#y%41'])
            op = r.choice(['upload', 'upload_stream', 'upload_stream', 'download', 'download_stream', 'download_stream', 'delete',
                           'exists', 'list_files'])
            count = r.choice(TRANSIENT_COUNTS + (None,))
            fkind = r.choice(['connect', 'status', 'status', 'drop-request', 'drop-response', 'status-429', 'expired-token', 'refused'])
            target_op = self.OPS_OF[kind][op]
            if kind == 'b2' and r.random() < 0.25:
                target_op = r.choice(self.B2_AUX if op in ('upload', 'upload_stream') else self.B2_AUX[1:])
            if fkind == 'expired-token' and kind != 'b2':
                fkind = 'status'
            fault = {'op': target_op, 'nth': 0, 'count': count, 'kind': fkind}
            pos = 'call'
            if fkind == 'status':
                fault['status'] = r.choice([500, 503, 408])
            elif fkind == 'refused':
                # the service rejects the request for a reason of its own (malformed, forbidden): not a transient fault, so it
                # need not be masked - but it is a failure, and must never be reported as the operation having succeeded
                st = r.choice([400, 403])
                body = (b'{"status": %d, "code": "%s", "message": "vf"}' % (st, b'bad_request' if st == 400 else b'access_denied')
                        if kind == 'b2' else
                        b'<?xml version="1.0"?><Error><Code>%s</Code><Message>vf</Message></Error>' % (b'InvalidRequest' if st == 400 else b'AccessDenied'))
                fault.update(kind='status', status=st, body=body)
            elif fkind == 'status-429':
                fault.update(kind='status', status=429, headers={'retry-after': str(r.choice([0, 1, 3]))})
            elif fkind == 'drop-request':
                fault['after'] = r.choice([0, 1, 2, 3])
                pos = 'inside' if fault['after'] else 'before-first-byte'
                if op not in ('upload', 'upload_stream'):
                    fault['after'] = 0
                    pos = 'call'
            elif fkind == 'drop-response':
                fault['after'] = r.choice([0, 1, 2, 50])
                pos = 'inside' if op in ('download', 'download_stream') else 'after-effect'
            elif fkind == 'status' and op in ('upload', 'upload_stream'):
                pos = 'after-last-byte'
            backend, svc, live = self._service(kind, r, [])
            # set-up without faults
            await backend.upload(name, old)
            n0 = len(svc.requests)
            if fkind == 'expired-token':
                left = {'n': count}

                def expire(o, target=target_op):
                    if o == target and (left['n'] is None or left['n'] > 0):
                        if left['n'] is not None:
                            left['n'] -= 1
                        return True
                    return False
                svc.expire_all_on = expire
                pos = 'inside' if target_op == 'b2:upload' else 'call'
            else:
                svc.faults = [fault]
            counters['plans'] += 1
            if count is None:
                counters['persistent_plans'] = counters.get('persistent_plans', 0) + 1
            classes.add(f'{kind}|{op}|{fkind}|{pos}|{"forever" if count is None else count}')
            stream = None
            outcome, err, result = 'returned', None, None
            try:
                coro = None
                if op == 'upload':
                    coro = backend.upload(name, new)
                elif op == 'upload_stream':
                    stream = FaultyStream(new)
                    coro = backend.upload_stream(name, stream, len(new), c)
                elif op == 'download':
                    coro = backend.download(name)
                elif op == 'download_stream':
                    stream = FaultyStream(b'stale' * 40)
                    coro = backend.download_stream(name, stream, c)
                elif op == 'delete':
                    coro = backend.delete(name)
                elif op == 'exists':
                    coro = backend.exists(name)
                if op == 'list_files':
                    result = await asyncio.wait_for(_collect(backend.list_files('')), 60)
                else:
                    result = await asyncio.wait_for(coro, 60)
            except RecursionError as e:
                outcome, err = 'recursion', e
            except asyncio.TimeoutError as e:
                outcome, err = 'timeout', e
            except Exception as e:
                outcome, err = 'raised', e
            svc.faults, svc.expire_all_on = [], None
            attempts = len(svc.requests) - n0
            hit = sum(1 for q in svc.requests[n0:] if q.get('fault')) + (0 if fkind != 'expired-token' else
                                                                          sum(1 for q in svc.requests[n0:] if q.get('status') == 401))
            counters[f'max_attempts_{kind}'] = max(counters.get(f'max_attempts_{kind}', 0), attempts)
            if stream is not None and stream.seeks_to_zero:
                counters['rewinds_observed'] = counters.get('rewinds_observed', 0) + 1
            w = {'backend': kind, 'op': op, 'fault': fault if fkind != 'expired-token' else 'expired-token@' + target_op,
                 'count': count, 'requests': attempts, 'faults_hit': hit, 'sizes': (len(old), len(new)), 'chunk': c,
                 'error': repr(err)[:300], 'trail': [(q['op'], q.get('status'), q.get('fault'), q.get('body_len')) for q in svc.requests[n0:]][:14]}
            if hit == 0:
                counters['plans_fault_not_reached'] = counters.get('plans_fault_not_reached', 0) + 1
                await backend.close()
                return
            state = live()
            if outcome == 'timeout':
                # 60 s of wall clock are not a verdict by themselves: retry waits are virtual, so a call that retries without
                # limit has made far more requests than any policy allows by then; a call that has not is just slow
                if attempts > ATTEMPT_BOUND[kind]:
                    viol(f'{op} did not finish under {fkind} x{count}: still retrying after {attempts} requests', **w)
                else:
                    slow.append(f'{kind} {op} under {fkind} x{count} took more than 60 s with {attempts} requests')
            elif count is not None:
                if fkind == 'refused' and outcome == 'raised':
                    counters['refusals_reported_as_errors'] = counters.get('refusals_reported_as_errors', 0) + 1
                    if op in ('upload', 'upload_stream') and state.get(name) not in (old, new):
                        viol(f'after a refused {kind} {op} the object is neither the old nor the new one', **w)
                elif outcome != 'returned':
                    viol(f'{kind} {op}: {count} consecutive transient fault(s) ({fkind} on {target_op}) were not masked: '
                         f'{type(err).__name__}: {str(err)[:100]}', **w)
                else:
                    if op in ('upload', 'upload_stream') and state.get(name) != new:
                        viol(f'{kind} {op} after {count} transient fault(s) ({fkind}, {pos}) stored {len(state.get(name, b""))} bytes that '
                             f'are not the payload ({len(new)} bytes)', **w)
                    if op == 'download' and bytes(result) != old:
                        viol(f'{kind} download after transient faults returned other bytes', **w)
                    if op == 'download_stream' and stream.getvalue() != old:
                        viol(f'{kind} download_stream after {count} transient fault(s) ({fkind}, {pos}) delivered '
                             f'{len(stream.getvalue())} bytes, object has {len(old)}', **w)
                    if op == 'delete' and name in state:
                        viol(f'{kind} delete after transient faults did not delete', **w)
                    if op == 'exists' and result is not True:
                        viol(f'{kind} exists after transient faults returned {result}', **w)
                    if op == 'list_files' and sorted(result) != [name]:
                        viol(f'{kind} list_files after transient faults returned {result}', **w)
            else:
                if outcome == 'returned' and not (fkind == 'drop-response' and False):
                    viol(f'{kind} {op} returned normally although {fkind} on {target_op} persists', **w)
                elif outcome == 'recursion':
                    viol(f'{kind} {op} under a persistent fault ended in RecursionError after {attempts} requests', **w)
                if attempts > ATTEMPT_BOUND[kind]:
                    viol(f'{kind} {op} under a persistent {fkind} made {attempts} requests (bound {ATTEMPT_BOUND[kind]})', **w)
                if op in ('upload', 'upload_stream') and fkind != 'drop-response' and state.get(name) not in (old,):
                    viol(f'after a failed {kind} {op} the previous object is no longer intact', **w)
                if stream is not None and op == 'upload_stream' and outcome == 'raised' and stream.tell() != 0:
                    viol(f'after a failed {kind} upload_stream the payload stream is not rewound', position=stream.tell(), **w)
            await backend.close()

        async def go():
            for p in range(case['plans']):
                await one(p)
                if len(violations) > 4:
                    break
        asyncio.run(go())
        if slow and not violations:
            return {'verdict': 'inconclusive', 'note': slow[0], 'classes': sorted(classes), 'counters': counters}
        return {'verdict': 'violated' if violations else 'held', 'classes': sorted(classes), 'counters': counters,
                'violations': violations[:4]}

    # -- repository level ----------------------------------------------------------------------------------------------
    def _repo(self, case, scratch):
        from .. import rep
        r = random.Random(case['seed'])
        kind = case['backend']
        # a fault schedule that stays inside every retry budget by construction: bursts of 1-2 faulty requests (any
        # operation), separated by at least 12 clean requests, so that no logical call meets more than one burst
        conc = r.choice([1, 3])
        faults, pos = [], r.randrange(3, 12)
        for _ in range(r.randint(4, 14)):
            fk = r.choice(['connect', 'status', 'drop-request', 'drop-response'])
            faults.append({'op': None, 'nth': pos, 'count': 1 if conc > 1 else r.choice([1, 2]), 'kind': fk,
                           'status': r.choice([500, 503]), 'after': r.choice([0, 1, 2])})
            pos += r.randrange(14, 40)
        backend, svc, live = self._service(kind, r, [])
        src = os.path.join(scratch, 'src')
        os.makedirs(src)
        truth = {}
        for i in range(r.randint(3, 7)):
            data = r.randbytes(r.choice([0, 10, 1500, 9000]))
            Path(src, f'f{i}').write_bytes(data)
            truth[os.path.realpath(os.path.join(src, f'f{i}'))] = data
        target = os.path.join(scratch, 'target')
        v = []
        counters_local = {}

        async def go():
            from replicat.repository import Repository
            _, key, _ = await rep.init(backend, case['settings'], concurrent=3)
            svc.faults = faults
            if kind == 'b2':
                # the account token expires a few times, never close to a fault burst
                burst_at = [f['nth'] for f in faults]
                when = [r.randrange(12, 30)]
                when += [when[0] + r.randrange(25, 45), when[0] + r.randrange(60, 90)]

                def expire(o):
                    seen = len(svc.requests)
                    near = any(abs(seen - b) < 8 for b in burst_at)
                    if when and seen >= when[0] and not near and o in ('b2:upload', 'b2:download', 'b2:head', 'b2:list_file_names'):
                        when.pop(0)
                        burst_at.append(seen)
                        counters_local['token_expiries'] = counters_local.get('token_expiries', 0) + 1
                        return True
                    return False
                svc.expire_all_on = expire
                svc.authorize_delay = r.choice([0.0, 0.02, 0.05])      # re-authorisation takes a while; siblings must wait for it
            repo = await rep.unlocked(backend, key, concurrent=conc)
            with rep.capture():
                await repo.snapshot(paths=[Path(src)], rate_limit=r.choice([None, 10_000_000]))
            repo2 = await rep.unlocked(backend, key, concurrent=conc)
            with rep.capture():
                await repo2.restore(path=Path(target))
            await backend.close()
        try:
            asyncio.run(go())
            got = {'/' + k: val[0] for k, val in gen.walk_tree(target).items()}
            if got != truth:
                bad = sorted(p for p in set(got) | set(truth) if got.get(p) != truth.get(p))[:3]
                v.append({'what': f'snapshot + restore through {kind} under transient faults restored other bytes', 'mechanism': None,
                          'witness': {'paths': bad, 'faults_hit': sum(f.get('_hit', 0) for f in faults)}})
        except Exception as e:
            import traceback
            v.append({'what': f'snapshot + restore through {kind} failed under transient faults within the budget: {type(e).__name__}: {str(e)[:150]}',
                      'mechanism': None, 'witness': {'trace': traceback.format_exc()[-1500:],
                                                     'faults': [(f['op'], f['kind'], f['nth'], f['count'], f.get('_hit', 0)) for f in faults],
                                                     'trail': [(q['op'], q.get('status'), q.get('fault')) for q in svc.requests[-25:]]}})
        hit = sum(f.get('_hit', 0) for f in faults)
        return {'verdict': 'violated' if v else 'held', 'classes': [f'repo|{kind}|faults-hit={min(hit, 9)}'],
                'counters': dict(counters_local, repo_level_runs=1, repo_level_faults_hit=hit, plans=1), 'violations': v}


async def _collect(agen):
    return [x async for x in agen]
