"""Executable reference of what restore / listings select (C04, C15, C18): a few lines over the
harness's own record of the history."""
import re


def restore_model(snaps, snapshot_regex=None, file_regex=None):
    """snaps: iterable of records with .name, .timestamp (the recorded utc_timestamp string), .files
    ({path: bytes}).  Returns {path: (bytes, snapshot name)}: for every path matching the file filter,
    the version from the newest snapshot that matches the snapshot filter and contains the path."""
    sre = re.compile(snapshot_regex) if snapshot_regex is not None else None
    fre = re.compile(file_regex) if file_regex is not None else None
    out = {}
    for s in sorted(snaps, key=lambda s: s.timestamp, reverse=True):
        if sre is not None and sre.search(s.name) is None:
            continue
        for path, data in s.files.items():
            if path in out:
                continue
            if fre is not None and fre.search(path) is None:
                continue
            out[path] = (data, s.name)
    return out
