"""Runner: case generation -> worker subprocesses -> verdict, evidence, replay files.

A check module defines a class `Check(CheckBase)`.  `generate()` returns JSON-able case
dicts; `run_case()` executes ONE case inside a worker process and returns a result dict:

    {'verdict': 'held' | 'violated' | 'inconclusive',
     'classes': [str, ...],            # coverage classes this case hit (non-trivial rule)
     'counters': {name: int, ...},     # monitor evaluation counters (summed over cases)
     'violations': [{'what': str, 'mechanism': str | None, 'witness': ...}, ...],
     'note': ...}

Verdict discipline (DESIGN.md section 0): exit 0 = held on what was observed, exit 1 =
violation not listed in known_findings.json (prints VIOLATION property=<id> replay=<path>),
exit 2 = inconclusive (a floor was not reached, or a tool is missing).
"""
import json
import os
import queue
import random
import subprocess
import sys
import threading
import time
import traceback

from . import paths

LEVELS = ('exploration', 'fault_enumeration')


class CheckBase:
    property_id = 'C00'
    level = 'exploration'
    rule = ''
    assumptions = []
    case_timeout = 120          # seconds, per case, watchdog only
    worker_env = None           # extra environment for workers (dict) or None
    workers = 16
    max_samples = 4
    evaluations_counter = None  # name of the monitor counter that counts the unit of evaluation (default: cases)

    def __init__(self, seed, tier):
        self.seed = seed
        self.tier = tier
        self.rng = random.Random(f'{self.property_id}/{seed}/{tier}')

    # -- to be provided by checks -----------------------------------------------------------
    def generate(self):
        raise NotImplementedError

    def run_case(self, case):
        raise NotImplementedError

    def floors(self, agg):
        """Return a list of unmet coverage floors (strings). Non-empty => inconclusive."""
        return []

    def on_worker_death(self, case, returncode, stderr_tail):
        """Result for a case whose worker process died or hit the watchdog."""
        return {'verdict': 'inconclusive', 'classes': [], 'counters': {},
                'violations': [], 'note': f'worker died rc={returncode}: {stderr_tail[-400:]}'}

    def setup(self):
        """Runs once in the parent before workers start (e.g. native builds)."""

    def worker_setup(self):
        """Runs once in every worker before the first case."""

    def extra_coverage(self, agg):
        return {}


# ----------------------------------------------------------------------------------------------
# known findings

def load_known():
    try:
        data = json.loads(paths.KNOWN_FINDINGS.read_text())
    except FileNotFoundError:
        return {'findings': [], 'fixed': []}
    return data


def known_for(prop):
    return {f['mechanism']: f for f in load_known().get('findings', []) if f['property'] == prop}


# ----------------------------------------------------------------------------------------------
# worker side

def worker_main(check_cls, seed, tier):
    """Protocol: one JSON case per line on stdin, one JSON result per line on fd 3 (a dup of
    the original stdout); the real fd 1 is pointed at /dev/null so nothing the code under test
    prints can corrupt the channel."""
    proto = os.fdopen(os.dup(1), 'w', buffering=1)
    devnull = os.open(os.devnull, os.O_WRONLY)
    os.dup2(devnull, 1)
    sys.stdout = open(os.devnull, 'w')
    check = check_cls(seed, tier)
    try:
        check.worker_setup()
    except Exception:
        proto.write(json.dumps({'fatal': traceback.format_exc()}) + '\n')
        return 3
    proto.write(json.dumps({'ready': True}) + '\n')
    for line in sys.stdin:
        line = line.strip()
        if not line:
            continue
        case = json.loads(line)
        t0 = time.time()
        try:
            res = check.run_case(case)
        except BaseException as e:   # harness bug or unexpected failure: never 'held'
            if isinstance(e, (KeyboardInterrupt, SystemExit)):
                raise
            res = {'verdict': 'inconclusive', 'classes': [], 'counters': {}, 'violations': [],
                   'note': 'harness exception: ' + traceback.format_exc()[-3000:]}
        res.setdefault('classes', [])
        res.setdefault('counters', {})
        res.setdefault('violations', [])
        res['case_id'] = case.get('id')
        res['wall'] = round(time.time() - t0, 3)
        proto.write(json.dumps(res, default=_json_default) + '\n')
        if res.get('_recycle'):
            break
    proto.flush()
    # threads parked by a failing command must not keep the worker alive (that is judged by C09)
    os._exit(0)


def _json_default(o):
    if isinstance(o, (bytes, bytearray, memoryview)):
        b = bytes(o)
        return {'!hex': b[:256].hex(), 'len': len(b)}
    if isinstance(o, (set, frozenset)):
        return sorted(map(str, o))
    return repr(o)


# ----------------------------------------------------------------------------------------------
# parent side

class _Slot(threading.Thread):
    def __init__(self, runner, idx):
        super().__init__(daemon=True)
        self.runner = runner
        self.idx = idx
        self.proc = None

    def spawn(self):
        r = self.runner
        env = dict(os.environ)
        env.setdefault('PYTHONHASHSEED', '0')
        env['VERIF_SCRATCH'] = r.scratch            # every scratch tree of this run lives under one directory
        if r.check.worker_env:
            env.update(r.check.worker_env)
        self.stderr_path = os.path.join(r.logdir, f'worker{self.idx}.err')
        self.errf = open(self.stderr_path, 'ab')
        self.proc = subprocess.Popen(
            [paths.PYTHON, '-m', 'vflib.main', r.check.property_id, '--worker',
             '--seed', str(r.check.seed), '--tier', r.check.tier],
            stdin=subprocess.PIPE, stdout=subprocess.PIPE, stderr=self.errf, env=env,
            cwd=str(paths.VERIF), text=True, bufsize=1)
        line = self._readline(120)
        if line is None:
            raise RuntimeError('worker did not start: ' + self._stderr_tail())
        msg = json.loads(line)
        if 'fatal' in msg:
            raise RuntimeError('worker setup failed: ' + msg['fatal'])

    def _readline(self, timeout):
        box = []

        def rd():
            try:
                box.append(self.proc.stdout.readline())
            except Exception:
                box.append('')
        t = threading.Thread(target=rd, daemon=True)
        t.start()
        t.join(timeout)
        if t.is_alive():
            self.proc.kill()
            t.join(10)
            return None
        return box[0] if box and box[0] else None

    def _stderr_tail(self):
        try:
            self.errf.flush()
            with open(self.stderr_path, 'rb') as f:
                f.seek(0, 2)
                size = f.tell()
                f.seek(max(0, size - 6000))
                return f.read().decode('utf-8', 'replace')
        except Exception:
            return ''

    def run(self):
        r = self.runner
        try:
            while True:
                try:
                    case = r.todo.get_nowait()
                except queue.Empty:
                    break
                if self.proc is None or self.proc.poll() is not None:
                    try:
                        self.spawn()
                    except Exception as e:
                        r.fatal = f'{e}'
                        r.done.put((case, {'verdict': 'inconclusive', 'classes': [], 'counters': {},
                                            'violations': [], 'note': f'spawn failed: {e}'}))
                        break
                try:
                    self.proc.stdin.write(json.dumps(case) + '\n')
                    self.proc.stdin.flush()
                    line = self._readline(case.get('timeout', r.check.case_timeout))
                except (BrokenPipeError, OSError):
                    line = None
                if line is None:
                    rc = self.proc.poll()
                    if rc is None:
                        self.proc.kill()
                        self.proc.wait()
                        rc = 'watchdog'
                    res = r.check.on_worker_death(case, rc, self._stderr_tail())
                    res.setdefault('classes', [])
                    res.setdefault('counters', {})
                    res.setdefault('violations', [])
                    res['case_id'] = case.get('id')
                    self.proc = None
                else:
                    res = json.loads(line)
                    if res.pop('_recycle', False):
                        # the worker asked for a fresh process (e.g. leaked threads after failing restores)
                        try:
                            self.proc.stdin.close()
                            self.proc.wait(5)
                        except Exception:
                            self.proc.kill()
                        self.proc = None
                r.done.put((case, res))
        finally:
            if self.proc is not None and self.proc.poll() is None:
                try:
                    self.proc.stdin.close()
                    self.proc.wait(20)
                except Exception:
                    self.proc.kill()


class Runner:
    def __init__(self, check):
        self.check = check
        self.todo = queue.Queue()
        self.done = queue.Queue()
        self.fatal = None
        self.scratch = os.path.join(paths.scratch_root(), f'vf-{check.property_id}-{os.getpid()}')
        self.logdir = os.path.join(self.scratch, 'logs')

    def run(self, cases):
        os.makedirs(self.logdir, exist_ok=True)
        for c in cases:
            self.todo.put(c)
        n = max(1, min(self.check.workers, len(cases), int(os.environ.get('VERIF_WORKERS', '16'))))
        slots = [_Slot(self, i) for i in range(n)]
        for s in slots:
            s.start()
        results = []
        stop_early = bool(os.environ.get('VERIF_STOP_ON_VIOLATION'))      # used by the seed regression only
        known = set(known_for(self.check.property_id))
        while len(results) < len(cases):
            try:
                item = self.done.get(timeout=1)
                results.append(item)
                if stop_early and any(v.get('mechanism') not in known for v in item[1].get('violations', [])):
                    with self.todo.mutex:
                        dropped = len(self.todo.queue)
                        self.todo.queue.clear()
                    cases = cases[:len(cases) - dropped]
            except queue.Empty:
                if not any(s.is_alive() for s in slots) and self.done.empty():
                    break
        for s in slots:
            s.join(30)
        import shutil
        # also removes what killed / recycled workers could not clean up themselves
        shutil.rmtree(self.scratch, ignore_errors=True)
        return results


def aggregate(results):
    agg = {'evaluations': len(results), 'held': 0, 'violated': 0, 'inconclusive': 0,
           'classes': {}, 'counters': {}, 'violations': [], 'inconclusive_notes': []}
    for case, res in results:
        v = res.get('verdict', 'inconclusive')
        agg[v if v in ('held', 'violated', 'inconclusive') else 'inconclusive'] += 1
        if v != 'inconclusive':
            for c in res.get('classes', []):
                agg['classes'][c] = agg['classes'].get(c, 0) + 1
        for k, n in res.get('counters', {}).items():
            if isinstance(n, (int, float)):
                if k.startswith('max_'):
                    agg['counters'][k] = max(agg['counters'].get(k, n), n)
                else:
                    agg['counters'][k] = agg['counters'].get(k, 0) + n
        for viol in res.get('violations', []):
            agg['violations'].append((case, viol))
        if v == 'inconclusive' and len(agg['inconclusive_notes']) < 8:
            agg['inconclusive_notes'].append({'case': case.get('id'), 'note': str(res.get('note'))[-1500:]})
    return agg


def write_replay(prop, seed, case, viol):
    paths.REPLAYS.mkdir(parents=True, exist_ok=True)
    p = paths.REPLAYS / f'{prop}-{seed}-{case.get("id")}.json'
    p.write_text(json.dumps({'property': prop, 'seed': seed, 'case': case, 'violation': viol},
                            indent=1, default=_json_default))
    return p


def run_check(check_cls, tier, seed, replay=None):
    t0 = time.time()
    check = check_cls(seed, tier)
    prop = check.property_id
    if replay:
        # the recorded case is re-run in a worker process (same environment as a normal run, e.g. the ASan preload)
        data = json.loads(open(replay).read())
        check.setup()
        case = data['case']
        results = Runner(check).run([case])
        res = results[0][1] if results else {'verdict': 'inconclusive', 'note': 'no result'}
        print(json.dumps(res, indent=1, default=_json_default))
        if res.get('verdict') == 'violated':
            print(f'VIOLATION property={prop} replay={replay}')
            return 1
        return 0 if res.get('verdict') == 'held' else 2
    try:
        check.setup()
    except Exception as e:
        print(f'INCONCLUSIVE property={prop} reason=setup failed: {e}')
        _write_evidence(check, None, [], time.time() - t0, note=f'setup failed: {e}')
        return 2
    cases = check.generate()
    for i, c in enumerate(cases):
        c.setdefault('id', i)
    runner = Runner(check)
    results = runner.run(cases)
    agg = aggregate(results)
    if os.environ.get('VF_DUMP'):
        with open(os.environ['VF_DUMP'], 'w') as f:
            for case, res in results:
                f.write(json.dumps({'case': case, 'res': res}, default=_json_default) + '\n')
    known = known_for(prop)
    new_violations, known_hits = [], {}
    for case, viol in agg['violations']:
        mech = viol.get('mechanism')
        if mech and mech in known:
            known_hits.setdefault(mech, []).append((case, viol))
        else:
            new_violations.append((case, viol))
    for mech, hits in sorted(known_hits.items()):
        print(f'KNOWN-FINDING: property={prop} {mech}: {known[mech]["what"]} '
              f'({len(hits)} case(s) this run, e.g. case {hits[0][0].get("id")})')
    unmet = check.floors(agg)
    missing = 0 if os.environ.get('VERIF_STOP_ON_VIOLATION') else len(cases) - len(results)
    if missing:
        unmet.append(f'{missing} cases produced no result')
    if runner.fatal:
        unmet.append(f'worker failure: {runner.fatal[-500:]}')
    _write_evidence(check, agg, results, time.time() - t0, unmet=unmet,
                    new_violations=new_violations, known_hits=known_hits)
    print(f'[{prop}] tier={tier} seed={seed} cases={len(results)} held={agg["held"]} '
          f'violated={agg["violated"]} inconclusive={agg["inconclusive"]} '
          f'classes={len(agg["classes"])} wall={time.time() - t0:.1f}s')
    ctr = ' '.join(f'{k}={v}' for k, v in sorted(agg['counters'].items()))
    if ctr:
        print(f'[{prop}] observed: {ctr}')
    if new_violations:
        seen = set()
        for case, viol in new_violations:
            key = (viol.get('mechanism'), viol.get('what', '')[:80])
            p = write_replay(prop, seed, case, viol)
            if key in seen and len(seen) >= 1:
                continue
            seen.add(key)
            print(f'VIOLATION property={prop} replay={p}')
            print(f'  what: {viol.get("what")}')
            if len(seen) >= 10:
                break
        return 1
    if unmet:
        for n in agg['inconclusive_notes'][:3]:
            print(f'  inconclusive case {n["case"]}: {n["note"][-600:]}')
        print(f'INCONCLUSIVE property={prop} reason={"; ".join(unmet)}')
        return 2
    return 0


def _write_evidence(check, agg, results, wall, unmet=None, new_violations=(), known_hits=None,
                    note=None):
    if os.environ.get('VERIF_NO_EVIDENCE'):
        return          # mutation campaign runs against scratch copies must not rewrite evidence
    paths.EVIDENCE.mkdir(parents=True, exist_ok=True)
    cov = {'evaluations': 0, 'distinct_nontrivial': 0, 'rule': check.rule, 'samples': []}
    if agg is not None:
        samples = []
        for case, res in results:
            if res.get('verdict') == 'held' and len(samples) < check.max_samples:
                samples.append({'case': _shorten(case), 'classes': res.get('classes', [])[:12],
                                'counters': res.get('counters', {})})
        evaluations = agg['evaluations']
        if check.evaluations_counter and agg['counters'].get(check.evaluations_counter):
            evaluations = int(agg['counters'][check.evaluations_counter])
        cov = {
            'evaluations': evaluations,
            'cases': agg['evaluations'],
            'evaluations_unit': check.evaluations_counter or 'cases',
            'distinct_nontrivial': len(agg['classes']),
            'rule': check.rule,
            'samples': samples,
            'held': agg['held'], 'violated': agg['violated'], 'inconclusive': agg['inconclusive'],
            'monitor_counters': agg['counters'],
            'classes_hit': dict(sorted(agg['classes'].items())[:400]),
            'unmet_floors': unmet or [],
            'known_findings_seen': {m: len(h) for m, h in (known_hits or {}).items()},
            'inconclusive_notes': agg['inconclusive_notes'][:4],
        }
        cov.update(check.extra_coverage(agg))
    if note:
        cov['note'] = note
    ev = {
        'property_id': check.property_id, 'tier': check.tier, 'seed': check.seed,
        'level': check.level, 'coverage': cov, 'assumptions': list(check.assumptions),
        'wall_s': round(wall, 2), 'violations': len(new_violations),
    }
    (paths.EVIDENCE / f'{check.property_id}.json').write_text(
        json.dumps(ev, indent=1, default=_json_default))


def _shorten(obj, limit=600):
    s = json.dumps(obj, default=_json_default)
    if len(s) <= limit:
        return obj
    if isinstance(obj, dict):
        out = {}
        for k, v in obj.items():
            sv = json.dumps(v, default=_json_default)
            out[k] = v if len(sv) <= 200 else (sv[:200] + '…')
        return out
    return s[:limit] + '…'
