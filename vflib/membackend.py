"""I1/I3/I4a: instrumented in-memory object store and the two backend flavours over it.

`Store` is the shared state (objects, event log, in-flight counter, fault plan, latency
plan, online monitors).  `MemBackend` (plain methods, run by replicat in executor threads)
and `AsyncMemBackend` (coroutine methods, run on the event loop) are thin faces of a Store,
so several Repository objects / users can work on one repository.  `Wrapped` puts the same
recording around a real backend instance (Local, S3, B2).
"""
import asyncio
import hashlib
import random
import threading
import time

from replicat.backends.base import DEFAULT_STREAM_CHUNK_SIZE, Backend

TRANSFER_OPS = ('exists', 'upload', 'upload_stream', 'download', 'download_stream', 'delete')
MUTATING_OPS = ('upload', 'upload_stream', 'delete')


class InjectedFault(OSError):
    pass


class MonitorViolation(Exception):
    """Raised by nobody; monitors only record (a raising monitor would change behaviour)."""


class Store:
    def __init__(self, seed=0):
        self.objects = {}
        self.lock = threading.RLock()
        self.log = []              # completed events, in completion order
        self.mutations = []        # (seq, op, name, data|None) in the order they took effect
        self.mutation_actors = []
        self.calls = 0
        self.in_flight = 0
        self.max_in_flight = 0
        self.in_flight_limit = None     # set by C09: violation recorded when exceeded
        self.violations = []       # online monitor findings
        self.rng = random.Random(seed)
        self.latency = None        # None | callable(op, name, idx) -> seconds
        # rendezvous probe (C09): calls of one op wait, holding whatever the caller holds, until `target` of them have
        # arrived: {'op', 'target', 'arrived', 'met', 'timeout', 'timed_out'}.  Reaching the target proves that the
        # caller can keep that many transfers in flight at once.
        self.rendezvous = None
        self.faults = []           # list of dicts, see _maybe_fault
        self.fault_hits = 0
        self.completion_order = []  # call indices in completion order
        self.on_mutation = None    # callable(store, op, name, old, new, actor)
        self.payload_log = None    # if a list: every uploaded payload (name, bytes) is appended
        self.actor = threading.local()
        self.default_actor = None
        self.op_counts = {}
        self.abort_after = None    # hard stop for runaway retry loops: raise SystemExit-like
        self.garble = None         # None | callable(name, data) -> data returned by download (short/garbled read)

    # -- helpers ------------------------------------------------------------------------------
    def snapshot_objects(self):
        with self.lock:
            return dict(self.objects)

    def names(self, prefix=''):
        with self.lock:
            return sorted(n for n in self.objects if n.startswith(prefix))

    def current_actor(self):
        return getattr(self.actor, 'name', None) or self.default_actor

    def begin(self, op, name):
        with self.lock:
            idx = self.calls
            self.calls += 1
            self.op_counts[op] = self.op_counts.get(op, 0) + 1
            if op in TRANSFER_OPS:
                self.in_flight += 1
                if self.in_flight > self.max_in_flight:
                    self.max_in_flight = self.in_flight
                lim = self.in_flight_limit
                if lim is not None and self.in_flight > lim:
                    self.violations.append({
                        'what': f'{self.in_flight} backend transfers in flight, limit {lim}',
                        'op': op, 'name': name, 'call': idx})
            if self.abort_after is not None and self.calls > self.abort_after:
                raise RuntimeError('vf: call budget exhausted (runaway loop)')
            return idx

    def end(self, idx, op, name, outcome, nbytes=None, actor=None):
        with self.lock:
            if op in TRANSFER_OPS:
                self.in_flight -= 1
            self.completion_order.append(idx)
            self.log.append({'call': idx, 'op': op, 'name': name, 'outcome': outcome,
                             "n": nbytes, "actor": actor or self.current_actor()})

    def rendezvous_arrive(self, op):
        """-> None if nothing to wait for, else a predicate 'may I go on?'"""
        rv = self.rendezvous
        if rv is None or rv['op'] != op or rv['met'] or rv.get('timed_out'):
            return None
        with self.lock:
            rv['arrived'] += 1
            if rv['arrived'] >= rv['target']:
                rv['met'] = True
                return None
        deadline = time.monotonic() + rv['timeout']

        def may_go():
            if rv['met'] or rv.get('timed_out'):
                return True
            if time.monotonic() > deadline:
                rv['timed_out'] = True
                return True
            return False
        return may_go

    def delay_for(self, op, name, idx):
        if self.latency is None:
            return 0
        return self.latency(op, name, idx)

    def maybe_fault(self, op, name, idx, phase):
        """Fault plan entries: {'op': str|None, 'nth': int (0-based, among matching calls),
        'count': int|None (None = forever), 'phase': 'before'|'after', 'exc': 'oserror'|...,
        'prefix': str|None}.  Matching is counted per entry."""
        with self.lock:
            for f in self.faults:
                if f.get('phase', 'before') != phase:
                    continue
                if f.get('op') not in (None, op):
                    continue
                if f.get('prefix') is not None and not str(name).startswith(f['prefix']):
                    continue
                seen = f.setdefault('_seen_' + phase, 0)
                f['_seen_' + phase] = seen + 1
                if seen < f.get('nth', 0):
                    continue
                cnt = f.get('count')
                if cnt is not None and seen >= f.get('nth', 0) + cnt:
                    continue
                self.fault_hits += 1
                f['_hit'] = f.get('_hit', 0) + 1
                return InjectedFault(5, f'vf injected fault ({op} {name} call {idx} {phase})')
        return None

    def apply(self, op, name, data, actor=None):
        """The mutation takes effect atomically here."""
        with self.lock:
            old = self.objects.get(name)
            if self.on_mutation is not None:
                self.on_mutation(self, op, name, old, data, actor or self.current_actor())
            if op == 'delete':
                self.objects.pop(name, None)
            else:
                self.objects[name] = data
            self.mutations.append((len(self.mutations), op, name, data))
            self.mutation_actors.append(actor)
            if self.payload_log is not None and data is not None:
                self.payload_log.append((name, data))

    def state_after(self, k):
        """Object map after the first k mutations (initial map must be passed separately)."""
        raise NotImplementedError


def replay_mutations(initial, mutations, k):
    objs = dict(initial)
    for _, op, name, data in mutations[:k]:
        if op == 'delete':
            objs.pop(name, None)
        else:
            objs[name] = data
    return objs


class _Common(Backend):
    def __init__(self, store, actor=None):
        self.store = store
        self._actor = actor

    def _tag(self):
        if self._actor is not None:
            self.store.actor.name = self._actor


class MemBackend(_Common, short_name='vfmem'):
    """Plain-method backend: replicat runs these in executor threads."""

    def _run(self, op, name, effect, nbytes=None):
        st = self.store
        self._tag()
        idx = st.begin(op, name)
        try:
            d = st.delay_for(op, name, idx)
            if d:
                time.sleep(d)
            go = st.rendezvous_arrive(op)
            while go is not None and not go():
                time.sleep(0.002)
            exc = st.maybe_fault(op, name, idx, 'before')
            if exc is not None:
                raise exc
            result = effect()
            exc = st.maybe_fault(op, name, idx, 'after')
            if exc is not None:
                raise exc
        except BaseException as e:
            st.end(idx, op, name, type(e).__name__, nbytes, self._actor)
            raise
        st.end(idx, op, name, "ok", nbytes, self._actor)
        return result

    def exists(self, name):
        return self._run('exists', name, lambda: name in self.store.objects)

    def upload(self, name, data):
        data = bytes(data)
        if self.store.payload_log is not None:
            self.store.payload_log.append((name, data))        # sent, whether or not the call succeeds
        return self._run('upload', name, lambda: self.store.apply('upload', name, data, self._actor), len(data))

    def upload_stream(self, name, stream, length, chunk_size=DEFAULT_STREAM_CHUNK_SIZE):
        def effect():
            try:
                parts = []
                while True:
                    piece = stream.read(chunk_size)
                    if not piece:
                        break
                    parts.append(bytes(piece))
                data = b''.join(parts)
                if len(data) != length:
                    raise InjectedFault(5, f'vf: stream delivered {len(data)} bytes, declared {length}')
                self.store.apply('upload_stream', name, data, self._actor)
            except BaseException:
                stream.seek(0)
                raise
        return self._run('upload_stream', name, effect, length)

    def download(self, name):
        def effect():
            try:
                data = self.store.objects[name]
            except KeyError:
                raise FileNotFoundError(2, f'no such object {name}')
            return self.store.garble(name, data) if self.store.garble is not None else data
        return self._run('download', name, effect)

    def download_stream(self, name, stream, chunk_size=DEFAULT_STREAM_CHUNK_SIZE):
        def effect():
            try:
                data = self.store.objects[name]
            except KeyError:
                raise FileNotFoundError(2, f'no such object {name}')
            if self.store.garble is not None:
                data = self.store.garble(name, data)
            try:
                stream.truncate(len(data))
                for i in range(0, len(data), chunk_size):
                    stream.write(data[i:i + chunk_size])
            except BaseException:
                stream.seek(0)
                raise
        return self._run('download_stream', name, effect)

    def list_files(self, prefix=''):
        return self._run('list_files', prefix, lambda: self.store.names(prefix))

    def delete(self, name):
        return self._run('delete', name, lambda: self.store.apply('delete', name, None, self._actor))

    def clean(self):
        return self._run('clean', '', lambda: None)

    def close(self):
        return self._run('close', '', lambda: None)


class AsyncMemBackend(_Common, short_name='vfamem'):
    """Coroutine backend: replicat awaits these on the event loop (or submits them to it from
    loader threads)."""

    async def _run(self, op, name, effect, nbytes=None):
        st = self.store
        self._tag()
        idx = st.begin(op, name)
        try:
            d = st.delay_for(op, name, idx)
            await asyncio.sleep(d or 0)
            go = st.rendezvous_arrive(op)
            while go is not None and not go():
                await asyncio.sleep(0.002)
            exc = st.maybe_fault(op, name, idx, 'before')
            if exc is not None:
                raise exc
            result = effect()
            if asyncio.iscoroutine(result):
                result = await result
            exc = st.maybe_fault(op, name, idx, 'after')
            if exc is not None:
                raise exc
        except BaseException as e:
            st.end(idx, op, name, type(e).__name__, nbytes, self._actor)
            raise
        st.end(idx, op, name, "ok", nbytes, self._actor)
        return result

    async def exists(self, name):
        return await self._run('exists', name, lambda: name in self.store.objects)

    async def upload(self, name, data):
        data = bytes(data)
        if self.store.payload_log is not None:
            self.store.payload_log.append((name, data))
        return await self._run('upload', name,
                               lambda: self.store.apply('upload', name, data, self._actor), len(data))

    async def upload_stream(self, name, stream, length, chunk_size=DEFAULT_STREAM_CHUNK_SIZE):
        async def effect():
            try:
                parts = []
                while True:
                    piece = stream.read(chunk_size)
                    if not piece:
                        break
                    parts.append(bytes(piece))
                    await asyncio.sleep(0)
                data = b''.join(parts)
                if len(data) != length:
                    raise InjectedFault(5, f'vf: stream delivered {len(data)} bytes, declared {length}')
                self.store.apply('upload_stream', name, data, self._actor)
            except BaseException:
                stream.seek(0)
                raise
        return await self._run('upload_stream', name, effect, length)

    async def download(self, name):
        def effect():
            try:
                data = self.store.objects[name]
            except KeyError:
                raise FileNotFoundError(2, f'no such object {name}')
            return self.store.garble(name, data) if self.store.garble is not None else data
        return await self._run('download', name, effect)

    async def download_stream(self, name, stream, chunk_size=DEFAULT_STREAM_CHUNK_SIZE):
        async def effect():
            try:
                data = self.store.objects[name]
            except KeyError:
                raise FileNotFoundError(2, f'no such object {name}')
            if self.store.garble is not None:
                data = self.store.garble(name, data)
            try:
                stream.truncate(len(data))
                for i in range(0, len(data), chunk_size):
                    stream.write(data[i:i + chunk_size])
                    await asyncio.sleep(0)
            except BaseException:
                stream.seek(0)
                raise
        return await self._run('download_stream', name, effect)

    async def list_files(self, prefix=''):
        names = await self._run('list_files', prefix, lambda: self.store.names(prefix))
        for n in names:
            yield n

    async def delete(self, name):
        return await self._run('delete', name, lambda: self.store.apply('delete', name, None, self._actor))

    async def clean(self):
        return await self._run('clean', '', lambda: None)

    async def close(self):
        return await self._run('close', '', lambda: None)


def make_backend(store, flavour, actor=None):
    return (AsyncMemBackend if flavour == 'async' else MemBackend)(store, actor)


def random_latency(seed, scale=0.002, kinds=None):
    """Seeded latency plan: the completion order of overlapping calls becomes a seeded
    permutation.  Only perturbs the schedule; never part of a verdict."""
    def fn(op, name, idx):
        if kinds is not None and op not in kinds:
            return 0
        r = random.Random(f'{seed}/{idx}')
        mode = seed % 4
        if mode == 0:
            return 0
        if mode == 1:
            return r.random() * scale
        if mode == 2:                       # adversarially reversed within a window
            return scale * (1 - (idx % 8) / 8.0)
        return scale if r.random() < 0.3 else 0
    return fn


def sha(data):
    return hashlib.sha256(data).hexdigest()[:16]
