"""Child-process driver: runs replicat commands against a Local repository directory in a fresh
interpreter (I8).  usage: python -m vflib.xproc <action> <json-spec>

spec: {'repo': dir, 'key': key file path, 'settings': dict, 'concurrent': int, 'src': dir, 'target': dir,
       'cache': dir|None, 'password': str, 'steps': [...]}
Prints one JSON line with the result as the LAST line of stdout (everything replicat prints is captured).
"""
import asyncio
import json
import os
import sys
import traceback
from pathlib import Path


def install_crash_points(root, crash_at):
    """I4e: the process dies (os._exit(137): no finally, no atexit, no flush of buffered writers) at the
    crash_at-th crash point.  Crash points are (a) BEFORE every filesystem mutation under `root` (audit events
    open-for-writing, os.rename (= replace), os.remove, os.mkdir, os.rmdir, os.truncate, os.link) and (b) right
    AFTER each publishing / unpublishing call (os.replace, os.rename, os.link, os.unlink, os.remove) returned.
    Returns a dict whose 'n' is the number of points passed so far and 'kinds' their kinds."""
    import threading
    state = {'n': 0, 'kinds': []}
    root = os.path.realpath(root)
    lock = threading.Lock()

    def under(p):
        try:
            p = os.fspath(p)
            if isinstance(p, bytes):
                p = os.fsdecode(p)
            return os.path.realpath(p).startswith(root + os.sep) or os.path.realpath(p) == root
        except Exception:
            return False

    def point(kind):
        with lock:
            state['n'] += 1
            n = state['n']
            state['kinds'].append(kind)
        if crash_at is not None and n == crash_at:
            os.write(2, f'CRASHPOINT {n} {kind}\n'.encode())     # fd 2 directly: sys.stderr may be redirected
            os._exit(137)

    WR = os.O_WRONLY | os.O_RDWR | os.O_CREAT | os.O_TRUNC | os.O_APPEND

    def hook(event, args):
        if event == 'open':
            path, mode, flags = args
            if isinstance(path, (str, bytes, os.PathLike)) and flags is not None and (flags & WR) and under(path):
                point('before:open-w')
        elif event in ('os.rename', 'os.link'):
            if under(args[0]) or under(args[1]):
                point('before:' + event)
        elif event in ('os.remove', 'os.mkdir', 'os.rmdir', 'os.truncate'):
            if isinstance(args[0], (str, bytes, os.PathLike)) and under(args[0]):
                point('before:' + event)
    sys.addaudithook(hook)

    def after(name):
        orig = getattr(os, name)

        def wrapper(*a, **k):
            res = orig(*a, **k)
            if a and isinstance(a[0], (str, bytes, os.PathLike)) and (under(a[0]) or (len(a) > 1 and isinstance(a[1], (str, bytes, os.PathLike)) and under(a[1]))):
                point('after:os.' + name)
            return res
        setattr(os, name, wrapper)
    for name in ('replace', 'rename', 'link', 'unlink', 'remove'):
        after(name)
    return state


def main():
    action, spec = sys.argv[1], json.loads(sys.argv[2])
    from . import rep
    from replicat.backends.local import Local
    crash = install_crash_points(spec['repo'], spec.get('crash_at')) if 'crash_at' in spec else None

    password = (spec.get('password') or rep.PASSWORD.decode()).encode()
    backend = Local(spec['repo'])
    cache = spec.get('cache')
    conc = spec.get('concurrent', 2)
    out = {}

    async def unlocked():
        key = Path(spec['key']).read_bytes() if spec.get('key') and os.path.exists(spec['key']) else None
        return await rep.unlocked(backend, key, password, concurrent=conc, cache=cache)

    async def snapshot():
        repo = await unlocked()
        with rep.capture():
            res = await repo.snapshot(paths=[Path(spec['src'])], note=spec.get('note'))
        out.update({'name': res.name, 'location': res.location, 'chunks': [c.hex() for c in res.chunks],
                    'files': sorted(f['path'] for f in res.data['files'])})

    async def go():
        if action in ('init', 'init+snapshot'):
            repo = rep.new_repo(backend, conc)
            with rep.capture() as cap:
                await repo.init(password=password, settings=spec.get('settings'), key_output_path=spec.get('key'))
            out['init_stdout'] = cap.stdout
        if action in ('snapshot', 'init+snapshot'):
            await snapshot()
        if action == 'restore':
            repo = await unlocked()
            with rep.capture():
                res = await repo.restore(path=Path(spec['target']), snapshot_regex=spec.get('snapshot_regex'))
            out['files'] = sorted(res.files or [])
        if action == 'list':
            repo = await unlocked()
            with rep.capture() as cap:
                await repo.list_snapshots(header=False)
            out['stdout'] = cap.stdout
        if action == 'clean':
            repo = await unlocked()
            with rep.capture():
                await repo.clean()
        if action == 'delete':
            repo = await unlocked()
            with rep.capture():
                await repo.delete_snapshots(spec['names'], confirm=False)

    try:
        asyncio.run(go())
        out['ok'] = True
    except Exception as e:
        out['ok'] = False
        out['error'] = f'{type(e).__name__}: {e}'
        out['trace'] = traceback.format_exc()[-1500:]
    if crash is not None:
        out['crash_points'] = crash['n']
        out['crash_kinds'] = crash['kinds']
    sys.stdout.write('\n' + json.dumps(out) + '\n')
    sys.stdout.flush()
    # a failing restore may leave loader threads parked (C09); never let that hang the child
    os._exit(0)


if __name__ == '__main__':
    main()
