"""Child-process driver: runs replicat commands against a Local repository directory in a fresh
interpreter (I8).  usage: python -m vflib.xproc <action> <json-spec>

spec: {'repo': dir, 'key': key file path, 'settings': dict, 'concurrent': int, 'src': dir, 'target': dir,
       'cache': dir|None, 'password': str, 'steps': [...]}
Prints one JSON line with the result as the LAST line of stdout (everything replicat prints is captured).
"""
import asyncio
import json
import os
import sys
import traceback
from pathlib import Path


def main():
    action, spec = sys.argv[1], json.loads(sys.argv[2])
    from . import rep
    from replicat.backends.local import Local

    password = (spec.get('password') or rep.PASSWORD.decode()).encode()
    backend = Local(spec['repo'])
    cache = spec.get('cache')
    conc = spec.get('concurrent', 2)
    out = {}

    async def unlocked():
        key = Path(spec['key']).read_bytes() if spec.get('key') and os.path.exists(spec['key']) else None
        return await rep.unlocked(backend, key, password, concurrent=conc, cache=cache)

    async def snapshot():
        repo = await unlocked()
        with rep.capture():
            res = await repo.snapshot(paths=[Path(spec['src'])], note=spec.get('note'))
        out.update({'name': res.name, 'location': res.location, 'chunks': [c.hex() for c in res.chunks],
                    'files': sorted(f['path'] for f in res.data['files'])})

    async def go():
        if action in ('init', 'init+snapshot'):
            repo = rep.new_repo(backend, conc)
            with rep.capture() as cap:
                await repo.init(password=password, settings=spec.get('settings'), key_output_path=spec.get('key'))
            out['init_stdout'] = cap.stdout
        if action in ('snapshot', 'init+snapshot'):
            await snapshot()
        if action == 'restore':
            repo = await unlocked()
            with rep.capture():
                res = await repo.restore(path=Path(spec['target']), snapshot_regex=spec.get('snapshot_regex'))
            out['files'] = sorted(res.files or [])
        if action == 'list':
            repo = await unlocked()
            with rep.capture() as cap:
                await repo.list_snapshots(header=False)
            out['stdout'] = cap.stdout
        if action == 'clean':
            repo = await unlocked()
            with rep.capture():
                await repo.clean()
        if action == 'delete':
            repo = await unlocked()
            with rep.capture():
                await repo.delete_snapshots(spec['names'], confirm=False)

    try:
        asyncio.run(go())
        out['ok'] = True
    except Exception as e:
        out['ok'] = False
        out['error'] = f'{type(e).__name__}: {e}'
        out['trace'] = traceback.format_exc()[-1500:]
    sys.stdout.write('\n' + json.dumps(out) + '\n')
    sys.stdout.flush()
    # a failing restore may leave loader threads parked (C09); never let that hang the child
    os._exit(0)


if __name__ == '__main__':
    main()
