"""I8b: the whole life cycle through the real program entry point (`python -m replicat ...` in child processes, local
backend), so that the glue between the command line and the library (`_cmd_handler`: which key is unlocked, which
password goes where, which flags become which arguments) is part of what is observed.  One seeded flow:

    init -> owner snapshot -> add-key (independent | shared | clone, in a seeded order) -> every derived user takes a
    snapshot of the SAME data and one of new data -> list-snapshots / list-files / restore for every user ->
    delete (by printed name) -> clean

The flow records facts; the checks (C06 access, C07 storage, C17 keys) judge the facets they own.  Oracles are the
independent reader (vflib/refimpl.py) and the bytes on disk - never replicat's own library calls.
"""
import json
import os
import random
import shutil
import subprocess
from pathlib import Path

from . import gen, paths, refimpl


def cli(argv, timeout=180, stdin=None, optimize=False):
    code = ("import sys; import vflib.rep, runpy; sys.argv = ['replicat'] + %r; "
            "runpy.run_module('replicat', run_name='__main__')" % [str(a) for a in argv])
    env = dict(os.environ)
    if optimize:
        env['PYTHONOPTIMIZE'] = '1'
    p = subprocess.run([paths.PYTHON, '-c', code], capture_output=True, text=True, timeout=timeout, env=env,
                       cwd=str(paths.VERIF), input=stdin)
    return p.returncode, p.stdout, p.stderr


def data_objects(repo):
    out = {}
    for dp, _, fs in os.walk(repo):
        for f in fs:
            full = os.path.join(dp, f)
            out[os.path.relpath(full, repo)] = open(full, 'rb').read()
    return out


def chunk_names(repo):
    return {n for n in data_objects(repo) if n.startswith('data/')}


def snapshot_names(repo):
    return {n for n in data_objects(repo) if n.startswith('snapshots/')}


class Flow:
    def __init__(self, seed, scratch):
        self.r = random.Random(seed)
        self.scratch = scratch
        self.repo = os.path.join(scratch, 'repo')
        self.facts = {'commands': [], 'users': {}, 'failures': []}
        self.n_commands = 0

    def run(self, argv, expect_ok=True, what=None):
        rc, out, err = cli(argv)
        self.n_commands += 1
        self.facts['commands'].append({'argv': [str(a) for a in argv][:12], 'rc': rc})
        if expect_ok and rc != 0:
            self.facts['failures'].append({'what': what or argv[0], 'rc': rc, 'stderr': err[-400:]})
        return rc, out, err

    def base(self, user):
        u = self.facts['users'][user]
        return ['-r', self.repo, '-K', u['keyfile'], '-p', u['password'], '--no-cache', '-q', '--ignore-config']

    def tree(self, name, nfiles, mx):
        src = os.path.join(self.scratch, name)
        os.makedirs(src, exist_ok=True)
        truth = {}
        for i in range(nfiles):
            data = self.r.randbytes(self.r.choice([0, 5, mx, 3 * mx + 1, 7 * mx]))
            Path(src, f'{name}{i}').write_bytes(data)
            truth[os.path.realpath(os.path.join(src, f'{name}{i}'))] = data
        return src, truth

    def go(self):
        r, f = self.r, self.facts
        mn, mx = r.choice([(8, 64), (4, 32), (16, 257)])
        cipher = r.choice(['aes_gcm', 'chacha20_poly1305'])
        init = ['init', '-r', self.repo, '-p', 'pw-owner', '-o', os.path.join(self.scratch, 'key-owner'), '-q', '--ignore-config',
                '--chunking.min-length', mn, '--chunking.max-length', mx, '--encryption.cipher.name', cipher,
                '--encryption.kdf.n', 4, '--hashing.name', r.choice(['blake2b', 'sha2', 'sha3'])]
        if r.random() < 0.4:
            Path(self.scratch, 'key-owner').write_bytes(b'{"old": "' + b'y' * 2500 + b'"}\n')
            f.setdefault('key_files_overwritten', []).append('owner')
        rc, _, err = self.run(init, what='init')
        if rc != 0:
            return f
        f['users']['owner'] = {'keyfile': os.path.join(self.scratch, 'key-owner'), 'password': 'pw-owner', 'mode': 'owner'}
        f['settings'] = {'chunking': (mn, mx), 'cipher': cipher}
        common_src, common_truth = self.tree('common', 4, mx)
        f['common_truth_paths'] = sorted(common_truth)
        self.truth = {'common': common_truth}
        self.src = {'common': common_src}
        # owner's first snapshot
        before = chunk_names(self.repo)
        self.run(['snapshot', common_src] + self.base('owner'), what='owner snapshot')
        f['owner_chunks'] = sorted(chunk_names(self.repo) - before)
        f['owner_snapshots'] = sorted(snapshot_names(self.repo))
        modes = ['independent', 'shared', 'clone']
        r.shuffle(modes)
        if r.random() < 0.3:
            modes.append(r.choice(['shared', 'clone']))          # a second one of a kind, derived from a derived key
        parents = ['owner']
        for i, mode in enumerate(modes):
            name = f'{mode}{i}'
            keyfile = os.path.join(self.scratch, f'key-{name}')
            parent = r.choice(parents) if mode != 'independent' else 'owner'
            pw = f'pw-{name}'
            argv = ['add-key', '-r', self.repo, '-o', keyfile, '-q', '--ignore-config']
            pu = f['users'][parent]
            # cheap key derivation everywhere (the default scrypt cost is 1 GiB and seconds per command)
            argv += ['--encryption.kdf.n', r.choice([2, 4, 8])] if r.random() < 0.8 else ['--encryption.kdf.name', 'blake2b']
            if mode == 'independent':
                argv += ['-n', pw]
                if r.random() < 0.5:
                    argv += ['-K', pu['keyfile'], '-p', pu['password']]       # irrelevant for an independent key, but allowed
            elif mode == 'shared':
                argv += ['--shared', '-n', pw, '-K', pu['keyfile'], '-p', pu['password']]
            else:
                argv += ['--clone', '-K', pu['keyfile'], '-p', pu['password']]
                pw = pu['password']
            if r.random() < 0.5:
                # the output file already exists and is longer than a key (an older key with costlier parameters, anything)
                Path(keyfile).write_bytes(b'{"old": "' + b'x' * r.choice([700, 3000]) + b'"}\n')
                f.setdefault('key_files_overwritten', []).append(name)
            before_objs = data_objects(self.repo)
            rc, _, err = self.run(argv, what=f'add-key {mode}')
            if rc != 0 or not os.path.exists(keyfile):
                continue
            f['users'][name] = {'keyfile': keyfile, 'password': pw, 'mode': mode, 'parent': parent,
                                'add_key_touched_repository': data_objects(self.repo) != before_objs}
            if mode != 'independent':
                parents.append(name)
        # every derived user: the same data again, then data of their own
        for name, u in list(f['users'].items()):
            if name == 'owner':
                continue
            before = chunk_names(self.repo)
            snaps_before = snapshot_names(self.repo)
            rc, _, _ = self.run(['snapshot', common_src] + self.base(name), what=f'{name} snapshot of the common data')
            u['new_chunks_for_common_data'] = sorted(chunk_names(self.repo) - before)
            u['snapshots'] = sorted(snapshot_names(self.repo) - snaps_before)
            own_src, own_truth = self.tree(f'own-{name}-', 2, mx)
            self.truth[name], self.src[name] = own_truth, own_src
            snaps_before = snapshot_names(self.repo)
            self.run(['snapshot', own_src] + self.base(name), what=f'{name} snapshot of own data')
            u['snapshots'] += sorted(snapshot_names(self.repo) - snaps_before)
        f['users']['owner']['snapshots'] = f['owner_snapshots']
        # listings and restores, per user
        for name, u in f['users'].items():
            rc, out, _ = self.run(['list-snapshots', '--no-header', '--columns', 'name'] + self.base(name), what=f'{name} list-snapshots')
            u['listed'] = [ln.strip() for ln in out.splitlines() if ln.strip()]
            rc, out, _ = self.run(['list-files', '--no-header', '--columns', 'path'] + self.base(name), what=f'{name} list-files')
            u['listed_files'] = sorted({ln.strip() for ln in out.splitlines() if ln.strip()})
            target = os.path.join(self.scratch, f'restore-{name}')
            rc, _, err = self.run(['restore', target] + self.base(name), what=f'{name} restore')
            u['restore_rc'] = rc
            u['restored'] = {'/' + k: v[0] for k, v in gen.walk_tree(target).items()} if os.path.isdir(target) else {}
            shutil.rmtree(target, ignore_errors=True)
            # wrong password / somebody else's password with this key
            others = [x['password'] for x in f['users'].values() if x['password'] != u['password']] + ['nope']
            rc, _, _ = self.run(['list-snapshots', '-r', self.repo, '-K', u['keyfile'], '-p', r.choice(others), '--no-cache', '-q',
                                 '--ignore-config'], expect_ok=False)
            u['wrong_password_rc'] = rc
        f['config'] = data_objects(self.repo).get('config')
        # garbage collection through the command line: a delete by the printed name, a refused delete of somebody else's
        # snapshot, then clean - each bracketed by images of the directory
        f['gc'] = []
        for u in f['users'].values():
            u['snapshots_at_listing'] = list(u.get('snapshots', []))
        names = [n for n in f['users'] if f['users'][n].get('snapshots')]
        r.shuffle(names)
        for name in names[:2]:
            u = f['users'][name]
            own = [refimpl.parse_snapshot_location(p)[0] for p in u['snapshots']]
            victim = r.choice(own)
            before = data_objects(self.repo)
            rc, _, err = self.run(['delete', victim, '-y'] + self.base(name), what=f'{name} delete')
            f['gc'].append({'op': 'delete', 'user': name, 'snapshot': victim, 'rc': rc, 'before': before,
                            'after': data_objects(self.repo)})
            u['snapshots'] = [p for p in u['snapshots'] if refimpl.parse_snapshot_location(p)[0] != victim]
            others = [(n2, p) for n2, u2 in f['users'].items() if n2 != name for p in u2.get('snapshots', [])]
            if others:
                n2, p2 = r.choice(others)
                before = data_objects(self.repo)
                rc, _, _ = self.run(['delete', refimpl.parse_snapshot_location(p2)[0], '-y'] + self.base(name), expect_ok=False)
                f['gc'].append({'op': 'foreign-delete', 'user': name, 'owner': n2, 'rc': rc, 'before': before,
                                'after': data_objects(self.repo)})
            before = data_objects(self.repo)
            rc, _, _ = self.run(['clean'] + self.base(name), what=f'{name} clean')
            f['gc'].append({'op': 'clean', 'user': name, 'rc': rc, 'before': before, 'after': data_objects(self.repo)})
        return f


def keys_view(facts):
    """Independent reader's view of every key file: (ok, userkey, private section) per user."""
    out = {}
    cfg = facts.get('config')
    for name, u in facts['users'].items():
        try:
            ref = refimpl.Ref(cfg, Path(u['keyfile']).read_bytes(), u['password'].encode())
            out[name] = ref
        except Exception as e:                   # noqa: BLE001
            out[name] = e
    return out


def dumps_facts(facts):
    return json.dumps({k: v for k, v in facts.items() if k not in ('config', 'gc')}, default=lambda o: repr(o)[:80])[:4000]


# -- the intended relationships (from the modes asked for on the command line, not from what was produced) ---------------

def families_and_groups(facts):
    """family[user]: users whose chunks are shared (owner + shared + clone, transitively); group[user]: users who can read
    each other's file lists - every key derives a user key of its own (a clone copies the secrets and keeps the PASSWORD,
    not the user key), so each user is alone in its group."""
    fam, grp = {}, {}
    for name, u in facts['users'].items():
        fam[name] = name if u['mode'] in ('owner', 'independent') else fam[u['parent']]
        grp[name] = name
    return fam, grp


def _snap_name(path):
    return refimpl.parse_snapshot_location(path)[0]


def judge_keys(facts):
    """C17: every key written by init / add-key unlocks with its own password and no other; clone/shared/independent keys
    carry the secrets their mode promises."""
    v = []
    for fl in facts['failures']:
        if fl['what'].startswith(('init', 'add-key')):
            v.append({'what': f'`replicat {fl["what"]}` failed (exit {fl["rc"]})', 'stderr': fl['stderr']})
    refs = keys_view(facts)
    fam, grp = families_and_groups(facts)
    for name, ref in refs.items():
        u = facts['users'][name]
        if isinstance(ref, Exception):
            v.append({'what': f'the key written by add-key ({u["mode"]}) does not unlock with its own password per the documented '
                              f'format: {type(ref).__name__}: {ref}', 'user': name})
            continue
        if u.get('wrong_password_rc') == 0:
            v.append({'what': f'a command run with the {u["mode"]} key and another password succeeded', 'user': name})
        if u.get('add_key_touched_repository'):
            v.append({'what': f'add-key ({u["mode"]}) changed objects in the repository', 'user': name})
    ok = {n: r_ for n, r_ in refs.items() if not isinstance(r_, Exception)}
    for a in ok:
        for b in ok:
            if a >= b:
                continue
            same_family, same_group = fam[a] == fam[b], grp[a] == grp[b]
            pa, pb = ok[a].private, ok[b].private
            shared_equal = (pa['shared_key'] == pb['shared_key'] and pa['mac_params'] == pb['mac_params'])
            if same_family != shared_equal:
                v.append({'what': f'keys {a} and {b} ' + ('belong to one key family but carry different shared secrets' if same_family
                                                          else 'are independent but carry the same shared secrets'), 'users': [a, b]})
            if not same_group and ok[a].userkey == ok[b].userkey:
                v.append({'what': f'keys {a} and {b} of different users derive the same user key', 'users': [a, b]})
    return v


def judge_storage(facts):
    """C07: the same data snapshotted with a shared or cloned key adds no chunk object; with an independent key it adds
    chunk objects of its own that the owner's family does not recognise."""
    v = []
    refs = keys_view(facts)
    fam, _ = families_and_groups(facts)
    owner = refs.get('owner')
    for name, u in facts['users'].items():
        if name == 'owner' or 'new_chunks_for_common_data' not in u:
            continue
        new = u['new_chunks_for_common_data']
        if fam[name] == 'owner' and new:
            v.append({'what': f'a snapshot of already stored data through the command line with a {u["mode"]} key added {len(new)} chunk '
                              f'object(s) ({len(facts["owner_chunks"])} were there)', 'user': name, 'new': new[:3]})
        if fam[name] != 'owner':
            if not new and facts['owner_chunks']:
                v.append({'what': 'an independent key stored no chunk of its own for data the owner already has (aliasing)', 'user': name})
            if not isinstance(owner, Exception) and owner is not None:
                alias = [n for n in new if owner.owns_chunk_location(n)]
                if alias:
                    v.append({'what': 'chunk objects written with an independent key carry the owner family\'s tag', 'user': name,
                              'objects': alias[:3]})
    return v


def judge_access(facts, truth):
    """C06: what each user lists, reads and restores follows the key relationships."""
    v = []
    fam, grp = families_and_groups(facts)
    snaps_of = {n: [_snap_name(p) for p in u.get('snapshots_at_listing', u.get('snapshots', []))] for n, u in facts['users'].items()}
    for name, u in facts['users'].items():
        if 'listed' not in u:
            continue
        want_listed = sorted(s for n, ss in snaps_of.items() if fam[n] == fam[name] for s in ss)
        if sorted(u['listed']) != want_listed:
            extra = sorted(set(u['listed']) - set(want_listed))
            missing = sorted(set(want_listed) - set(u['listed']))
            foreign = [s for s in extra for n, ss in snaps_of.items() if s in ss and fam[n] != fam[name]]
            v.append({'what': f'list-snapshots with a {u["mode"]} key ' + (f'shows snapshot(s) of another key family' if foreign else
                                                                            f'shows {len(u["listed"])} name(s), expected {len(want_listed)}'),
                      'user': name, 'extra': [s[:16] for s in extra][:3], 'missing': [s[:16] for s in missing][:3]})
        readable_users = [n for n in facts['users'] if grp[n] == grp[name]]
        want_files = {}
        for n in readable_users:
            if facts['users'][n].get('snapshots_at_listing', facts['users'][n].get('snapshots')):
                want_files.update(truth['common'])
                want_files.update(truth.get(n, {}))
        if u.get('restore_rc') != 0:
            v.append({'what': f'restore with a {u["mode"]} key failed (exit {u.get("restore_rc")})', 'user': name})
        elif u['restored'] != want_files:
            got, bad = u['restored'], None
            bad = sorted(p for p in set(got) | set(want_files) if got.get(p) != want_files.get(p))[:3]
            leaked = [p for p in bad if p in got and p not in want_files]
            v.append({'what': f'restore with a {u["mode"]} key ' + ('wrote files of a user whose snapshots it must not read' if leaked else
                                                                     'did not write exactly the files of the snapshots it can read'),
                      'user': name, 'paths': bad})
        if sorted(u['listed_files']) != sorted(want_files):
            leaked = sorted(set(u['listed_files']) - set(want_files))
            v.append({'what': f'list-files with a {u["mode"]} key ' + ('shows files of snapshots it must not read' if leaked else
                                                                        'does not show exactly the files it can read'),
                      'user': name, 'paths': (leaked or sorted(set(want_files) - set(u['listed_files'])))[:3]})
    return v


def run_case(seed, facet):
    """One flow judged for one facet ('keys' -> C17, 'storage' -> C07, 'access' -> C06).  Returns a harness result."""
    import tempfile
    scratch = tempfile.mkdtemp(prefix='vf-cli-', dir=paths.scratch_root())
    try:
        fl = Flow(seed, scratch)
        try:
            facts = fl.go()
        except subprocess.TimeoutExpired:
            return {'verdict': 'inconclusive', 'note': 'command-line child watchdog', 'classes': [], 'counters': {}}
        counters = {'cli_flows': 1, 'cli_commands': fl.n_commands, 'cli_users': len(facts['users'])}
        setup_failures = [f for f in facts['failures']]
        if facet == 'gc':
            found = judge_gc(facts)
        elif facet == 'keys':
            found = judge_keys(facts)
        elif facet == 'storage':
            found = judge_storage(facts)
        else:
            found = judge_access(facts, fl.truth)
        # a command that fails where the flow expects success is a finding of the facet only if the judge says so; any
        # other failure makes the flow inconclusive for this facet
        if setup_failures and not found:
            return {'verdict': 'inconclusive', 'note': f'command-line flow failed: {setup_failures[:2]}', 'classes': [],
                    'counters': counters}
        classes = sorted({f'cli|{facet}|{u["mode"]}' for u in facts['users'].values()})
        violations = [{'what': x.pop('what') + ' (through `python -m replicat`)', 'mechanism': None,
                       'witness': dict(x, settings=facts.get('settings'), modes=[u['mode'] for u in facts['users'].values()])}
                      for x in found[:4]]
        return {'verdict': 'violated' if violations else 'held', 'classes': classes, 'counters': counters, 'violations': violations}
    finally:
        shutil.rmtree(scratch, ignore_errors=True)


def judge_gc(facts):
    """C08 (and the refusal clause of C06): delete / clean through the command line remove exactly what they should."""
    v = []
    refs = keys_view(facts)
    fam, _ = families_and_groups(facts)
    for step in facts.get('gc', []):
        ref = refs.get(step['user'])
        if isinstance(ref, Exception) or ref is None:
            continue
        before, after = step['before'], step['after']
        removed = sorted(set(before) - set(after))
        added_or_changed = sorted(n for n in after if after[n] != before.get(n))
        mine = lambda n: (n.startswith('data/') and ref.owns_chunk_location(n)) or (n.startswith('snapshots/') and ref.owns_snapshot_location(n))   # noqa: E731
        foreign_removed = [n for n in removed if not mine(n)]
        if added_or_changed:
            v.append({'what': f'`replicat {step["op"]}` wrote or changed objects', 'objects': added_or_changed[:3], 'user': step['user']})
        if foreign_removed:
            v.append({'what': f'`replicat {step["op"]}` removed objects that do not belong to the caller\'s key family', 'objects': foreign_removed[:3],
                      'user': step['user']})
        if step['op'] == 'foreign-delete':
            if removed:
                v.append({'what': 'a delete of another user\'s snapshot removed objects', 'objects': removed[:3], 'user': step['user'],
                          'owner': step['owner'], 'exit': step['rc']})
            continue
        if step['rc'] != 0:
            v.append({'what': f'`replicat {step["op"]}` failed (exit {step["rc"]})', 'user': step['user']})
            continue
        try:
            refd_after, _ = refimpl.referenced_locations(ref, after)
            refd_before, snaps_before = refimpl.referenced_locations(ref, before)
        except refimpl.FormatError as e:
            v.append({'what': f'objects of the family no longer decode after `replicat {step["op"]}`: {e}', 'user': step['user']})
            continue
        family_chunks_after = {n for n in after if n.startswith('data/') and ref.owns_chunk_location(n)}
        if step['op'] == 'delete':
            gone = [n for n in before if n.startswith('snapshots/') and refimpl.parse_snapshot_location(n)[0] == step['snapshot']]
            if any(n in after for n in gone):
                v.append({'what': '`replicat delete <printed name>` left the snapshot object in place', 'user': step['user']})
            only_victim = (refd_before - refd_after) & set(before)
            left = sorted(only_victim & set(after))
            if left:
                v.append({'what': f'after `replicat delete` {len(left)} chunk(s) referenced only by the deleted snapshot remain', 'objects': left[:3],
                          'user': step['user']})
            lost = sorted((refd_after & set(before)) - set(after))
            if lost:
                v.append({'what': 'after `replicat delete` a chunk still referenced by a remaining snapshot is gone', 'objects': lost[:3], 'user': step['user']})
        else:
            if family_chunks_after != refd_after & set(after) or refd_after - set(after):
                v.append({'what': 'after `replicat clean` the family\'s chunk objects are not exactly the referenced ones',
                          'orphans': sorted(family_chunks_after - refd_after)[:3], 'missing': sorted(refd_after - set(after))[:3], 'user': step['user']})
    return v
