"""I2: source-free schedule perturbation with sys.monitoring.

LINE and CALL events are enabled (set_local_events) only on the code objects of the repository's
own functions - every method of Repository and every closure nested in them (found by walking
co_consts), plus the rate limiter and the re-authentication wrapper.  With a seeded probability
the callback blocks for a fraction of a millisecond.  A blocking sleep only hands the GIL to
other THREADS, which the OS may do at any bytecode boundary anyway, so no interleaving is
manufactured that the program cannot have; nothing ever yields to another coroutine.

CALL events matter because two accesses to shared state often sit on ONE line
(`while not chunk_queue.empty() or not chunk_producer.done()`): a LINE event cannot separate
them, a CALL event fires before each of the two calls.
"""
import random
import sys
import threading
import time
import types

TOOL = 3
EXPECTED_CLOSURES = ('_chunk_producer', '_stream_files', '_worker', '_chunk_done', '_download_chunk',
                     '_write_chunk_ref', '_download_snapshot')


def _codes_of(obj, seen):
    if isinstance(obj, (staticmethod, classmethod)):
        obj = obj.__func__
    if isinstance(obj, property):
        for f in (obj.fget, obj.fset, obj.fdel):
            if f is not None:
                _codes_of(f, seen)
        return
    fn = getattr(obj, '__wrapped__', None)
    if fn is not None:
        _codes_of(fn, seen)
    code = getattr(obj, '__code__', None)
    if code is None and hasattr(obj, 'func'):          # cached_property
        code = getattr(obj.func, '__code__', None)
    if code is not None:
        _walk(code, seen)


def _walk(code, seen):
    if code in seen:
        return
    seen.add(code)
    for c in code.co_consts:
        if isinstance(c, types.CodeType):
            _walk(c, seen)


def target_codes():
    import replicat.repository as repository
    import replicat.utils as utils
    seen = set()
    for v in vars(repository.Repository).values():
        _codes_of(v, seen)
    for cls in (utils.RateLimitedIO, utils._RateLimitedFileWrapper, utils.TQDMIOBase, utils.TQDMIOReader, utils.TQDMIOWriter):
        for v in vars(cls).values():
            _codes_of(v, seen)
    for fn in (utils.requires_auth, utils.as_completed, utils.async_gen_wrapper):
        _codes_of(fn, seen)
    return {c for c in seen if not c.co_name.startswith('<')}


def _sync_types():
    import asyncio
    import concurrent.futures
    import queue
    out = [queue.Queue, concurrent.futures.Future, asyncio.Future, threading.Event, asyncio.Queue, asyncio.Lock,
           asyncio.Event, type(threading.Lock()), type(threading.RLock())]
    try:
        import _asyncio
        out.append(_asyncio.Future)
    except ImportError:
        pass
    return tuple(out)


class Perturber:
    """p / max_sleep: ordinary yield injection at LINE and CALL events.
    sync_p / sync_sleep: CALL events whose callee is a method of a synchronisation object (queue, future, event,
    lock) - the points where threads exchange state - get their own probability and (longer) delay, the way
    systematic schedulers preempt at synchronisation operations.
    slow: {code name or '@role': (p, max_sleep)} - long delays in one closure or on every thread of one role, e.g. a slow
    disk under the snapshot's producer thread ('@plain').
    Thread roles are structural, not names: 'loop' = the thread that runs the operation's event loop (its name starts
    with LOOP_PREFIX, given by the harness), 'pool<k>' = a worker of the k-th concurrent.futures executor seen by this
    perturber (workers of one executor share a role; in replicat: the backend executor, the chunk producer's executor,
    the loader and writer pools), 'plain<k>' = any other thread, numbered likewise.  victim: a role, or '!loop'."""
    LOOP_PREFIX = 'vf-op'

    def __init__(self, seed, p=0.1, max_sleep=0.001, calls=True, sync_p=None, sync_sleep=0.0, slow=None, victim=None):
        self.rng = random.Random(seed)
        self.p, self.max_sleep = p, max_sleep
        self.sync_p, self.sync_sleep = sync_p, sync_sleep
        self.slow = slow or {}
        # victim: thread-name prefix; synchronisation-point delays then hit only that side, the other side runs at
        # full speed (delaying one party at a time is what exposes windows between two of its own steps)
        self.victim = victim
        self.sync_types = _sync_types()
        self.sync_events = 0
        self.lock = threading.Lock()
        self.events = 0
        self.yields = 0
        self.per_code = {}
        self.signature = []          # (thread class, code name) of the first events
        self.calls = calls
        self.codes = set()
        self.last_event = time.monotonic()
        self.active = False
        self.line_seen = {}          # (code name, line) -> monotonic time last executed
        self.roles = {}              # thread ident -> role
        self.per_role = {}
        self.groups = {}             # executor work queue id / thread ident -> role
        self.codes_hit = set()

    def role(self):
        ident = threading.get_ident()
        r = self.roles.get(ident)
        if r is None:
            t = threading.current_thread()
            if t.name.startswith(self.LOOP_PREFIX):
                r = 'loop'
            else:
                target = getattr(t, '_target', None)
                args = getattr(t, '_args', None) or ()
                with self.lock:
                    if getattr(target, '__module__', '') == 'concurrent.futures.thread' and len(args) > 1:
                        key, kind = id(args[1]), 'pool'           # the executor's work queue
                    else:
                        key, kind = ident, 'plain'
                    r = self.groups.get(key)
                    if r is None:
                        r = self.groups[key] = f"{kind}{sum(1 for v in self.groups.values() if v.startswith(kind))}"
            self.roles[ident] = r
        return r

    def is_victim(self):
        if self.victim is None:
            return True
        r = self.role()
        return r != 'loop' if self.victim == '!loop' else r == self.victim

    def _decide(self, code, sync=False):
        role = self.role()
        with self.lock:
            self.events += 1
            self.per_role[role] = self.per_role.get(role, 0) + 1
            self.codes_hit.add(code)
            name = code.co_name
            if sync and self.sync_p is not None:
                self.sync_events += 1
                self.per_code[name] = self.per_code.get(name, 0) + 1
                self.last_event = time.monotonic()
                if self.rng.random() < self.sync_p:
                    self.yields += 1
                    return self.rng.random() * self.sync_sleep
                return 0
            slow = self.slow.get(name) or self.slow.get('@' + role)
            if slow:
                sp, sl = slow
                if self.rng.random() < sp:
                    self.per_code[name] = self.per_code.get(name, 0) + 1
                    self.yields += 1
                    return self.rng.random() * sl
            self.per_code[name] = self.per_code.get(name, 0) + 1
            self.last_event = time.monotonic()
            if len(self.signature) < 400:
                t = threading.current_thread().name
                self.signature.append((t.split('_')[0].rstrip('0123456789-'), name))
            if self.rng.random() < self.p:
                self.yields += 1
                return self.rng.random() * self.max_sleep
        return 0

    def recent_lines(self, window):
        now = time.monotonic()
        return sorted(k for k, t in list(self.line_seen.items()) if now - t <= window)

    def _line(self, code, line):
        self.line_seen[(code.co_name, line)] = time.monotonic()
        d = self._decide(code)
        if d:
            time.sleep(d)

    def _call(self, code, offset, callable_, arg0):
        # for `obj.method()` the interpreter reports the plain function and passes the object as arg0
        sync = self.sync_p is not None and (isinstance(arg0, self.sync_types)
                                            or isinstance(getattr(callable_, '__self__', None), self.sync_types))
        if sync and not self.is_victim():
            sync = False
        d = self._decide(code, sync)
        if d:
            time.sleep(d)

    def install(self):
        mon = sys.monitoring
        if mon.get_tool(TOOL) is not None:
            mon.free_tool_id(TOOL)
        mon.use_tool_id(TOOL, 'vf-sched')
        ev = mon.events.LINE | (mon.events.CALL if self.calls else 0)
        mon.register_callback(TOOL, mon.events.LINE, self._line)
        if self.calls:
            mon.register_callback(TOOL, mon.events.CALL, self._call)
        self.codes = target_codes()
        for c in self.codes:
            mon.set_local_events(TOOL, c, ev)
        self._old_interval = sys.getswitchinterval()
        sys.setswitchinterval(1e-5)
        self.active = True
        return self

    def uninstall(self):
        if not self.active:
            return
        mon = sys.monitoring
        for c in self.codes:
            mon.set_local_events(TOOL, c, 0)
        mon.register_callback(TOOL, mon.events.LINE, None)
        if self.calls:
            mon.register_callback(TOOL, mon.events.CALL, None)
        mon.free_tool_id(TOOL)
        sys.setswitchinterval(self._old_interval)
        self.active = False

    def missing_closures(self):
        return [n for n in EXPECTED_CLOSURES if n not in {c.co_name for c in self.codes}]


# -- quiescent-deadlock detector -------------------------------------------------------------------------

def stack_signature(skip=()):
    out = {}
    names = {t.ident: t.name for t in threading.enumerate()}
    for ident, frame in sys._current_frames().items():
        if ident in skip:
            continue
        frames = []
        f = frame
        while f is not None and len(frames) < 14:
            frames.append(f'{f.f_code.co_filename.rsplit("/", 1)[-1]}:{f.f_lineno}:{f.f_code.co_name}')
            f = f.f_back
        out[names.get(ident, str(ident))] = frames
    return out


def wait_or_deadlock(thread, progress, hard_timeout=90, quiet=2.0, work=None, recent_lines=None, spin=8.0):
    """Join `thread`.  progress() -> a value that changes whenever anything moves (monitored events,
    backend calls).  Returns ('done', None) | ('deadlock', stacks) | ('watchdog', stacks).
    Deadlock is a LOGICAL condition: no progress for `quiet` seconds and two identical stack samples of
    every thread one second apart."""
    t0 = time.monotonic()
    me = threading.get_ident()
    last, last_change = progress(), time.monotonic()
    last_work, last_work_change = (work() if work else None), time.monotonic()
    while True:
        thread.join(0.25)
        if not thread.is_alive():
            return 'done', None
        now = time.monotonic()
        if work is not None:
            w = work()
            if w != last_work:
                last_work, last_work_change = w, now
            elif now - last_work_change >= spin and recent_lines is not None:
                # LIVELOCK: code keeps executing, but no backend call has started or ended for `spin` seconds and
                # everything executed lately is a handful of lines (a polling loop that can never be satisfied)
                lines = recent_lines(spin / 2)
                if len(lines) <= 12:
                    return 'livelock', {'spinning_on': [f'{n}:{ln}' for n, ln in lines], **stack_signature(skip=(me,))}
        cur = progress()
        if cur != last:
            last, last_change = cur, now
        elif now - last_change >= quiet:
            a = stack_signature(skip=(me,))
            time.sleep(1.0)
            if not thread.is_alive():
                return 'done', None
            b = stack_signature(skip=(me,))
            if a == b and progress() == cur:
                return 'deadlock', b
            last_change = time.monotonic()
        if now - t0 > hard_timeout:
            return 'watchdog', stack_signature(skip=(me,))
