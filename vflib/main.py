import argparse
import importlib
import os
import sys


def load_check(prop):
    mod = importlib.import_module(f'vflib.checks.{prop.lower()}')
    return mod.Check


def main(argv=None):
    ap = argparse.ArgumentParser(prog='vf')
    ap.add_argument('property', nargs='?')
    ap.add_argument('tier_pos', nargs='?', choices=['quick', 'thorough'])
    ap.add_argument('--tier', choices=['quick', 'thorough'])
    ap.add_argument('--seed', type=int)
    ap.add_argument('--replay')
    ap.add_argument('--worker', action='store_true')
    ap.add_argument('--setup', action='store_true')
    args = ap.parse_args(argv)

    if args.setup:
        from . import native
        for kind in ('plain', 'asan'):
            print(kind, native.build(kind))
        return 0

    # explicit CLI tier wins; VERIF_TIER is used when no tier was given on the command line
    tier = args.tier or args.tier_pos or os.environ.get('VERIF_TIER') or 'quick'
    if tier not in ('quick', 'thorough'):
        tier = 'quick'
    seed = args.seed if args.seed is not None else int(os.environ.get('VERIF_SEED', '0') or 0)
    check_cls = load_check(args.property)
    from . import harness
    if args.worker:
        return harness.worker_main(check_cls, seed, tier)
    return harness.run_check(check_cls, tier, seed, replay=args.replay)


if __name__ == '__main__':
    sys.exit(main())
