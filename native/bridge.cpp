// C bridge over the working tree's src/adapters.cpp (included textually by the build:
// -include of the shim happens through -I; this file #includes the source itself).
#include VF_ADAPTERS_SOURCE
#include <cstring>
#include <cstdlib>
#include <string>
extern "C" {
// returns NULL and fills err (<=255 bytes) when the constructor throws
void* vf_new(size_t min_length, size_t max_length, const char* key, ssize_t key_len, char* err) {
    try {
        pybind11::buffer kb(key, key_len);
        return new gclmulchunker(min_length, max_length, kb);
    } catch (const std::exception& e) {
        std::strncpy(err, e.what(), 255); err[255] = 0;
        return nullptr;
    }
}
size_t vf_next_cut(void* h, const char* data, ssize_t size, int final_) {
    pybind11::buffer b(data, size);
    return static_cast<gclmulchunker*>(h)->next_cut(b, final_ != 0);
}
size_t vf_min(void* h) { return static_cast<gclmulchunker*>(h)->min_length; }
size_t vf_max(void* h) { return static_cast<gclmulchunker*>(h)->max_length; }
void vf_free(void* h) { delete static_cast<gclmulchunker*>(h); }
}
extern "C" {
// Same as vf_next_cut, but on a private exact-size heap copy of the data, so that an
// instrumented allocator (ASan) places a red zone immediately behind the last byte.
size_t vf_next_cut_exact(void* h, const char* data, ssize_t size, int final_) {
    char* copy = static_cast<char*>(malloc(size > 0 ? size : 1));
    if (size > 0) std::memcpy(copy, data, size);
    // for size==0 allocate 1 byte but hand over size 0
    pybind11::buffer b(copy, size);
    size_t r = static_cast<gclmulchunker*>(h)->next_cut(b, final_ != 0);
    free(copy);
    return r;
}
}
