// Minimal stand-in for <pybind11/pybind11.h>: just enough for src/adapters.cpp to compile
// without Python or pybind11 headers (none are installed on this image). The chunker's
// logic is compiled unmodified; only the Python binding glue is stubbed out.
#pragma once
#include <cstddef>
#include <sys/types.h>
namespace pybind11 {
struct buffer_info { void* ptr; ssize_t size; };
struct buffer {
    const void* p; ssize_t n;
    buffer(const void* p_, ssize_t n_) : p(p_), n(n_) {}
    buffer_info request() const { return buffer_info{const_cast<void*>(p), n}; }
};
struct module_ {};
template <typename... A> struct init {};
template <typename T> struct class_ {
    template <typename... X> class_(X&&...) {}
    template <typename... X> class_& def(X&&...) { return *this; }
    template <typename... X> class_& def_readonly(X&&...) { return *this; }
    template <typename... X> class_& def_readwrite(X&&...) { return *this; }
    template <typename... X> class_& def_property_readonly(X&&...) { return *this; }
};
template <typename... A> struct arg_v {};
struct arg { const char* n; arg(const char* n_) : n(n_) {} template <typename T> arg& operator=(T&&) { return *this; } };
}  // namespace pybind11
#define PYBIND11_MODULE(name, var) \
    [[maybe_unused]] static void vf_unused_module_init_##name(pybind11::module_& var)
