#!/bin/bash
# usage: tools/runall.sh <tier> <seed> [checks...]   - runs checks, prints one line per check (no evidence written)
here="$(cd "$(dirname "${BASH_SOURCE[0]}")/.." && pwd)"
tier="$1"; seed="$2"; shift 2
checks="${@:-C01 C02 C03 C04 C05 C06 C07 C08 C09 C10 C11 C12 C13 C14 C15 C16 C17 C18 C19 C20}"
for c in $checks; do
  t0=$(date +%s)
  out=$(cd "$here" && VERIF_SEED=$seed VERIF_NO_EVIDENCE=${NOEV:-1} ./vf $c $tier 2>&1); rc=$?
  t1=$(date +%s)
  echo "$c seed=$seed tier=$tier rc=$rc $((t1-t0))s $(echo "$out" | grep -E '^\[C..\] tier' | sed 's/.*cases=/cases=/' | cut -c1-90) $(echo "$out" | grep -E 'VIOLATION|INCONCLUSIVE' | head -2 | tr '\n' ' ' | cut -c1-260)"
done
