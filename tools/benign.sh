#!/bin/bash
# Runs every quick check against scratch copies of /repo carrying behaviour-preserving variations (mutants/benign/*.patch):
# tuned constants, other slot numbering / chunk divisor / poll period, another suffix for temporaries, coarser locking.
# Every check must stay silent (rc=0).  usage: [PATCHES=glob] tools/benign.sh [checks...]
here="$(cd "$(dirname "${BASH_SOURCE[0]}")/.." && pwd)"
checks="${@:-C01 C02 C03 C04 C05 C06 C07 C08 C09 C10 C11 C12 C13 C14 C15 C16 C17 C18 C19 C20}"
bad=0
for p in "$here"/mutants/benign/${PATCHES:-*}.patch; do
  tmp=$(mktemp -d /tmp/vfb-XXXXXX)
  rsync -a --exclude .git --exclude '*.so' /repo/ "$tmp/"
  (cd "$tmp" && patch -p1 -s --no-backup-if-mismatch < "$p") || { echo "PATCH FAILED $p"; rm -rf "$tmp"; continue; }
  for c in $checks; do
    out=$(cd "$here" && VERIF_REPO="$tmp" VERIF_NO_EVIDENCE=1 ./vf $c quick 2>&1); rc=$?
    [ $rc -ne 0 ] && { bad=1; echo "ALARM $(basename $p) $c rc=$rc: $(echo "$out" | grep -E 'what:|INCONCLUSIVE' | head -2 | tr '\n' ' ' | cut -c1-300)"; }
  done
  echo "done $(basename $p)"
  rm -rf "$tmp"
done
exit $bad
