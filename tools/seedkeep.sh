#!/bin/bash
# usage: tools/seedkeep.sh <PROP> <m-k> "<what I ran / result>"   -> copies into /verif/seeded/<PROP>-<m-k>/
set -eu
prop="$1"; mk="$2"; ran="$3"
dst="/verif/seeded/$prop-${SEEDTAG:-}$mk"; src="${SEEDOUT:-/tmp/seed-out}/$prop/$mk"
mkdir -p "$dst"
cp "$src/patch.diff" "$dst/patch.diff"
for f in demo.py test_demo.py; do [ -f "$src/$f" ] && cp "$src/$f" "$dst/$f"; done
python3-vt - "$src/meta.json" "$dst/meta.json" "$prop" "$ran" <<'P'
import json, sys
src, dst, prop, ran = sys.argv[1:5]
try: m = json.load(open(src))
except Exception: m = {}
out = {'property': prop, 'summary': m.get('summary'), 'needs': m.get('needs'), 'files': m.get('files'),
       'origin': 'independent sub-agent given only the property text and a scratch worktree',
       'confirmed': 'tests pass with the patch (256), demo fails with it and passes without it - re-run by tools/seedcheck.sh (demo run with PYTHONPATH=<worktree>)',
       'ran': ran}
for k in ('needs_native_rebuild',):
    if k in m: out[k] = m[k]
json.dump(out, open(dst, 'w'), indent=1)
P
echo kept $dst
