#!/bin/bash
# Re-runs every archived seeded defect against the CURRENT /repo HEAD: applies seeded/<id>/patch.diff to a scratch
# worktree outside /repo and /verif, runs the repository's tests and the check(s) that are supposed to catch it (quick
# tier, via VERIF_REPO), removes the worktree.  Writes seeded/RESULTS.md.  usage: tools/seedregress.sh [ids...]
set -u
here="$(cd "$(dirname "${BASH_SOURCE[0]}")/.." && pwd)"
wt=/tmp/wt-regress-$$
git -C /repo worktree add -q --detach "$wt" HEAD || exit 3
trap 'git -C /repo worktree remove --force "$wt" >/dev/null 2>&1' EXIT
ids="${@:-$(ls "$here/seeded" | grep -E '^C[0-9]+-(r[0-9]-)?m[0-9]+$')}"
out="$here/seeded/RESULTS.md"; [ $# -gt 0 ] && out="$here/seeded/RESULTS.partial.md"
{
echo "# Seeded defects against /repo $(git -C /repo rev-parse --short HEAD) - $(date -u +%Y-%m-%dT%H:%MZ)"
echo
echo "| seed | applies | tests | check | result | first violation |"
echo "|------|---------|-------|-------|--------|-----------------|"
} > "$out.tmp"
for id in $ids; do
  d="$here/seeded/$id"
  prop="${id%%-*}"
  checks=$(python3-vt -c "import json,sys; m=json.load(open('$d/meta.json')); print(' '.join(m.get('caught_by') or ['$prop']))")
  git -C "$wt" checkout -q -- . ; git -C "$wt" clean -fdq
  if git -C "$wt" apply "$d/patch.diff" 2>/dev/null; then applies=yes; else applies=NO; fi
  if [ "$applies" = yes ]; then
    tests=$(cd "$wt" && /venv/bin/python -m pytest -q -p no:cacheprovider --timeout=900 2>&1 | tail -1 | grep -oE '[0-9]+ passed|[0-9]+ failed' | tr '\n' ' ')
    for chk in $checks; do
      tier=$(python3-vt -c "import json; print(json.load(open('$d/meta.json')).get('tier') or 'quick')")
      o=$(cd "$here" && VERIF_REPO="$wt" VERIF_NO_EVIDENCE=1 VERIF_STOP_ON_VIOLATION=1 timeout 3000 ./vf "$chk" $tier 2>&1); rc=$?
      what=$(echo "$o" | grep -m1 'what:' | sed 's/ *what: //' | cut -c1-140 | tr '|' '/')
      res=$([ $rc -eq 1 ] && echo "CAUGHT$([ $tier = thorough ] && echo ' (thorough tier)')" || echo "rc=$rc")
      [ $rc -ne 1 ] && python3-vt -c "import json,sys; sys.exit(0 if str(json.load(open('$d/meta.json')).get('status','')).startswith('not caught') else 1)" && res="not caught (documented: no sound oracle separates it)"
      echo "| $id | yes | $tests | $chk | $res | $what |" >> "$out.tmp"
      echo "$id $chk $res"
    done
  else
    note=$(python3-vt -c "import json; print((json.load(open('$d/meta.json')).get('status') or 'patch does not apply to the current tree')[:140])")
    echo "| $id | no | - | - | - | $note |" >> "$out.tmp"
    echo "$id DOES-NOT-APPLY"
  fi
done
mv "$out.tmp" "$out"
if [ $# -gt 0 ] && [ -f "$here/seeded/RESULTS.md" ]; then
  python3-vt - "$here/seeded/RESULTS.md" "$out" <<'P'
import sys
full, part = sys.argv[1:3]
def rows(path):
    head, body = [], {}
    for line in open(path):
        if line.startswith('| C'):
            cells = [c.strip() for c in line.strip().strip('|').split('|')]
            body[(cells[0], cells[3])] = line
        elif not body:
            head.append(line)
    return head, body
h, b = rows(full)
_, nb = rows(part)
for (seed, chk) in list(b):
    if any(seed == s2 for (s2, _) in nb):
        del b[(seed, chk)]
b.update(nb)
open(full, 'w').write(''.join(h) + ''.join(b[k] for k in sorted(b)))
P
  rm -f "$out"
fi
