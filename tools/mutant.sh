#!/bin/bash
# usage: tools/mutant.sh <patch-file|-e 'sed-expr file'> <check> [<check>...]
# Applies a patch to a scratch copy of /repo (outside /repo and /verif), runs the quick checks
# against it via VERIF_REPO, removes the copy.  Never touches /repo.
set -u
patch="$(realpath "$1")"; shift
tmp=$(mktemp -d /tmp/vfm-XXXXXX)
rsync -a --exclude .git --exclude '*.so' --exclude .benchmarks /repo/ "$tmp/"
if ! (cd "$tmp" && patch -p1 --no-backup-if-mismatch -s < "$patch"); then echo "PATCH FAILED"; rm -rf "$tmp"; exit 3; fi
rc_all=0
for chk in "$@"; do
  out=$(cd /verif && VERIF_REPO="$tmp" VERIF_NO_EVIDENCE=1 ./vf "$chk" ${TIER:-quick} 2>&1)
  rc=$?
  echo "== $chk rc=$rc $(echo "$out" | grep -m1 -A1 'VIOLATION' | tr '\n' ' ' | cut -c1-300)"
  [ $rc -eq 2 ] && echo "$out" | grep INCONCLUSIVE | head -2
  [ $rc -ne 1 ] && rc_all=1
done
rm -rf "$tmp"
exit $rc_all
