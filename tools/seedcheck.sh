#!/bin/bash
# usage: tools/seedcheck.sh <PROP> <m-k> <check> [<check>...]
# Confirms a seeded defect produced by a sub-agent in its scratch worktree /tmp/wt-<PROP>
# (tests pass with it, demo fails with it, demo passes without it), runs the named quick checks
# against the patched worktree via VERIF_REPO, and restores the worktree.  Never touches /repo.
set -u
prop="$1"; mk="$2"; shift 2
wt="/tmp/wt-$prop"; src="${SEEDOUT:-/tmp/seed-out}/$prop/$mk"
[ -f "$src/patch.diff" ] || { echo "no patch at $src"; exit 3; }
[ -d "$wt" ] || git -C /repo worktree add -q --detach "$wt" HEAD      # scratch worktree outside /repo and /verif; remove when done
git -C "$wt" checkout -q -- . && git -C "$wt" clean -fdq
# seeds are judged on top of the current /repo HEAD (which carries the fix: commits)
git -C "$wt" checkout -q --detach "$(git -C /repo rev-parse HEAD)"
demo=$(ls "$src"/demo.py "$src"/test_demo.py 2>/dev/null | head -1)
rundemo() { (cd "$wt" && PYTHONPATH="$wt" timeout 300 /venv/bin/python $( [[ "$demo" == *test_demo.py ]] && echo "-m pytest -q -p no:cacheprovider" ) "$demo" >/tmp/seed-demo.log 2>&1); echo $?; }
base=$(rundemo)
git -C "$wt" apply "$src/patch.diff" || { echo "PATCH DOES NOT APPLY"; exit 3; }
tests=$(cd "$wt" && /venv/bin/python -m pytest -q -p no:cacheprovider --timeout=900 2>&1 | tail -1)
with=$(rundemo)
echo "[$prop/$mk] demo without patch rc=$base | with patch rc=$with | tests: $tests"
for chk in "$@"; do
  out=$(cd /verif && VERIF_REPO="$wt" VERIF_NO_EVIDENCE=1 timeout 1800 ./vf "$chk" ${TIER:-quick} 2>&1); rc=$?
  echo "   == $chk rc=$rc $(echo "$out" | grep -m1 -A1 'VIOLATION' | tr '\n' ' ' | cut -c1-260)"
  [ $rc -eq 2 ] && echo "$out" | grep INCONCLUSIVE | head -2
done
git -C "$wt" checkout -q -- . && git -C "$wt" clean -fdq
