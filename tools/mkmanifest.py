#!/opt/veriftools/pyvenv/bin/python
"""Regenerate MANIFEST.json from the table in vflib/manifest_table.py and validate it."""
import json, sys
sys.path.insert(0, '/verif')
from vflib.manifest_table import CHECKS, NOT_APPLICABLE, NOTES
checks = []
for c in CHECKS:
    pid = c['id']
    checks.append({
        'property_id': pid,
        'quick_cmd': f'./vf {pid} quick',
        'thorough_cmd': f'./vf {pid} thorough',
        'evidence_file': f'evidence/{pid}.json',
        'replay_cmd_template': f'./vf {pid} --replay {{path}}',
        'engine': 'vf',
        'level_claimed': {'category': c['level'], 'text': c['text'], 'design_ref': c['ref']},
        'level_note': c['note'],
        'technique': c['technique'],
    })
m = {
    'version': 1,
    'setup_cmd': './vf --setup',
    'hooks': {
        'guard': 'REPLICAT_VERIF',
        'enable': 'none needed: all instrumentation is harness-side (sys.monitoring, audit hooks, wrapped backends, module-attribute substitution); the guard variable is reserved and unused',
        'baseline_off_cmd': 'cd /repo && /venv/bin/python -m pytest -ra -q -p no:cacheprovider --timeout=900 --continue-on-collection-errors',
        'source_commits': [],
        'add_only': True,
    },
    'engines': [{'name': 'vf', 'path': 'vflib/', 'serves_properties': [c['id'] for c in CHECKS],
                 'kind_free_text': 'runtime monitoring: generated/hostile/fault-injected workloads on the real package (Python from the working tree, src/adapters.cpp recompiled from the working tree, ASan/UBSan build), oracles over recorded events and states'}],
    'checks': checks,
    'not_applicable': NOT_APPLICABLE,
    'notes': NOTES,
}
json.dump(m, open('/verif/MANIFEST.json', 'w'), indent=1)
import jsonschema
jsonschema.validate(m, json.load(open('/root/.vp/MANIFEST.schema.json')))
print('MANIFEST ok:', len(checks), 'checks;', len(NOT_APPLICABLE), 'not applicable')
